package storage

import (
	"fmt"
	"sync"
	"testing"

	"pgregory.net/rapid"

	"verif/lib/evid"
	"verif/lib/host"
	"verif/lib/storgen"
)

// ---------------------------------------------------------------- C20

var (
	contBaseMu sync.Mutex
	contBase   = map[[3]int]*host.Host{}
)

// contBaseHost returns a fresh host with contract D (for the element/key type) deployed and
// the three containers created.
func contBaseHost(eng host.Engine, elem, key int) (*host.Host, string) {
	contBaseMu.Lock()
	defer contBaseMu.Unlock()
	k := [3]int{int(eng), elem, key}
	if h, ok := contBase[k]; ok {
		return h.Fork(), ""
	}
	h := host.New()
	r := h.Deploy(host.Addr(1), "D", storgen.ContContract(elem, key), eng)
	if r.Err != nil || r.Panic != nil {
		return nil, fmt.Sprintf("deploying the container contract failed on %s: %s", eng, errText(r))
	}
	r = h.Tx(storgen.ContInitSource(elem, key), nil, mapSigners[:1], host.Options{Engine: eng})
	if r.Err != nil || r.Panic != nil {
		return nil, fmt.Sprintf("creating the containers failed on %s: %s", eng, errText(r))
	}
	contBase[k] = h
	return h.Fork(), ""
}

type contFacts struct {
	maxSlabs   int
	shrankBig  bool // a bulk removal of ≥ 60 elements or the removal of a non-inlined element
	badIndex   bool
	split      bool // a single operation added ≥ 60 elements (crosses a slab split for every element type)
	reloads    int  // committed transactions (each followed by a reload in the next execution)
	maxLen     int
	committed  int
	failed     int
	scripts    int
	localExecs int
}

func (f contFacts) nontrivial() bool { return f.split && f.reloads >= 2 && f.badIndex }

func verifyContState(h *host.Host, eng host.Engine, m *storgen.ContModel) string {
	r := h.Script(storgen.ContVerifyScript(m.Elem, m.Key), nil, host.Options{Engine: eng})
	if r.Err != nil || r.Panic != nil {
		return "verification script failed: " + errText(r)
	}
	got, err := stringArray(r.Value)
	if err != nil {
		return "verification script: " + err.Error()
	}
	want := m.VerifyExpect()
	names := []string{"variable-sized array", "constant-sized array", "dictionary"}
	for i := range want {
		if i >= len(got) || got[i] != want[i] {
			return fmt.Sprintf("stored %s differs from the model after reload: digest (length:hash) %v, model %s", names[i], got, want[i])
		}
	}
	return ""
}

// runContHistory executes the history on one engine against the slice/map model.
func runContHistory(hist storgen.ContHistory, eng host.Engine, health bool, hooks *execHooks) (string, contFacts) {
	var f contFacts
	h, msg := contBaseHost(eng, hist.Elem, hist.Key)
	if msg != "" {
		return msg, f
	}
	m := storgen.NewContModel(hist.Elem, hist.Key)
	big := false
	for _, e := range hist.Execs {
		for _, o := range e.Ops {
			big = big || o.J > 30
		}
	}
	for i, e := range hist.Execs {
		x := m.Step(e)
		src := e.Source(hist.Elem, hist.Key)
		where := fmt.Sprintf("[%s] exec %d (%s, %s)", eng, i, map[bool]string{true: "script", false: "transaction"}[e.Script], map[bool]string{true: "loaded values", false: "storage references"}[e.Local])
		info := execInfo{idx: i, src: src, script: e.Script, expectFail: x.Fail != "", commits: x.Commits,
			mutatedFirst: (e.Local && len(x.Logs) > 0) || contMutates(e, x)}
		if hooks != nil && hooks.before != nil {
			if msg := hooks.before(info, h, eng); msg != "" {
				return fmt.Sprintf("%s: %s\n--- source:\n%s", where, msg, src), f
			}
		}
		digest := h.Ledger.Digest()
		var r host.Result
		// the runtime's own atree validation re-verifies the whole container after every mutation (quadratic):
		// it is kept on only for histories without large bulk operations
		opts := host.Options{Engine: eng, NoAtreeValidation: health || big}
		if e.Script {
			snap := h.Snapshot()
			r = h.Script(src, nil, opts)
			if h.Ledger.Digest() != digest {
				return fmt.Sprintf("%s: a script changed the ledger\n--- source:\n%s", where, src), f
			}
			h.Restore(snap)
		} else {
			r = h.Tx(src, nil, mapSigners, opts)
		}
		if r.Panic != nil {
			return fmt.Sprintf("%s: Go panic escaped the runtime: %v\n--- source:\n%s", where, r.Panic, src), f
		}
		ci := host.Classify(r)
		if x.Fail == "" {
			if r.Err != nil {
				return fmt.Sprintf("%s: the model expects success, got: %s\n--- source:\n%s", where, errText(r), src), f
			}
		} else {
			if r.Err == nil {
				return fmt.Sprintf("%s: the model expects a failure (%s), but the execution succeeded; logs %v\n--- source:\n%s", where, x.Fail, r.Logs, src), f
			}
			if ci.Class != "user" || !ci.HasType(x.ErrType) {
				return fmt.Sprintf("%s: the model expects a failure of kind %s (error type containing %q), got class=%s types=%v: %s\n--- source:\n%s",
					where, x.Fail, x.ErrType, ci.Class, ci.Types, errText(r), src), f
			}
		}
		logs := unquoteAll(r.Logs)
		if len(logs) != len(x.Logs) {
			return fmt.Sprintf("%s: %d log lines, the model expects %d\n  got:  %v\n  want: %v\n--- source:\n%s", where, len(logs), len(x.Logs), logs, x.Logs, src), f
		}
		for k := range logs {
			if logs[k] != x.Logs[k] {
				op := "?"
				var oi int
				if _, err := fmt.Sscanf(logs[k], "%d:", &oi); err == nil && oi < len(e.Ops) {
					op = e.Ops[oi].String()
				}
				return fmt.Sprintf("%s: observable %d is %q, the model expects %q (operation %s)\n--- source:\n%s", where, k, logs[k], x.Logs[k], op, src), f
			}
		}
		if x.Commits {
			f.committed++
			f.reloads++
			if msg := verifyContState(h, eng, m); msg != "" {
				return fmt.Sprintf("%s: %s\n--- source:\n%s", where, msg, src), f
			}
			if health || i%10 == 9 || i == len(hist.Execs)-1 {
				rep, msg := healthOf(h)
				if msg != "" {
					return fmt.Sprintf("%s: %s\n--- source:\n%s", where, msg, src), f
				}
				f.maxSlabs = max(f.maxSlabs, rep.SlabRegisters)
			}
			f.split = f.split || x.Facts.GrewBy >= 60
			f.shrankBig = f.shrankBig || x.Facts.ShrankBy >= 60 || x.Facts.RemovedBig
		} else if h.Ledger.Digest() != digest {
			return fmt.Sprintf("%s: a failed execution changed the ledger", where), f
		}
		if !x.Commits {
			if e.Script {
				f.scripts++
			} else {
				f.failed++
			}
		}
		if e.Local {
			f.localExecs++
		}
		f.badIndex = f.badIndex || x.Facts.BadIndex
		f.maxLen = max(f.maxLen, x.Facts.MaxLen)
		if hooks != nil && hooks.after != nil {
			if msg := hooks.after(info, r, h, eng); msg != "" {
				return fmt.Sprintf("%s: %s\n--- source:\n%s", where, msg, src), f
			}
		}
	}
	return "", f
}

var contMutatingKinds = map[string]bool{"append": true, "appendAll": true, "insert": true, "remove": true, "removeFirst": true, "removeLast": true, "dropMany": true,
	"set": true, "concatAssign": true, "filterAssign": true, "fromVariable": true, "setNil": true, "insertMany": true, "removeMany": true}

// contMutates: some mutating operation ran (its observable was logged) before the execution ended.
func contMutates(e storgen.ContExec, x storgen.ContExpect) bool {
	for _, l := range x.Logs {
		var oi int
		if _, err := fmt.Sscanf(l, "%d:", &oi); err == nil && oi < len(e.Ops) && contMutatingKinds[e.Ops[oi].Kind] {
			return true
		}
	}
	return false
}

func describeContHistory(h storgen.ContHistory) any {
	var out []string
	for _, e := range h.Execs {
		s := "tx"
		if e.Script {
			s = "script"
		}
		if e.Local {
			s += "(local)"
		}
		s += "{"
		for i, o := range e.Ops {
			if i > 0 {
				s += "; "
			}
			s += o.String()
		}
		if e.Inject != nil {
			s += "; " + e.Inject.String()
		}
		out = append(out, s+"}")
	}
	return map[string]any{"element": storgen.ElemName[h.Elem], "key": []string{"Int", "String"}[h.Key], "execs": out}
}

func TestC20(t *testing.T) {
	rec := evid.Start(t, "C20", "model-steered random operation sequences (88% start with a transaction that builds a multi-slab array (250–660 elements) and dictionary (150–250 entries); 80% of the in-place executions start, right after the reload, with a READ-ONLY query through the borrowed reference — contains/firstIndex of the first/middle/last/an absent element, index, slice, length, containsKey, d[k] — before anything else has loaded the slabs; every history has ≥ 1 invalid-index operation; quick: ≤ 12 executions × ≤ 11 operations; thorough: ≤ 30 × 12, i.e. up to 360 operations, bulk operations count once) on a variable-sized array [E], a constant-sized array [E; 8] and a "+
		"dictionary {K: E} kept in account storage; E ∈ {Int (every 13th and a quarter of the single inserts HUGE: ≥ 8000 bits, a non-inlinable scalar), String (2–5, 200 and 600 bytes), struct with nested array, [Int] (0–5 and 130 elements)}, K ∈ {Int, String} (every 17th key non-inlinable: huge Int / 300-byte String); whole-container copy/transfer forms (let copy, argument + return, dereference copy, fresh small [E] with a big element copied and passed, load/save in later transactions) on single-slab and multi-slab containers; operations: append, appendAll, insert, "+
		"remove, removeFirst, removeLast, bulk removal, index read/write, slice, reverse, concat, filter, map (generated pure closures), contains, firstIndex, toConstantSized/toVariableSized; dictionary insert, "+
		"remove, index read/write/nil-assignment, containsKey, bulk insert/remove, keys/values/forEachKey/for-in enumeration (all four must agree), forEachKey with early stop; valid and invalid indices; bulk sizes "+
		"up to 400 cross the atree slab split/merge thresholds; every transaction is a fresh execution (commit + reload), 12% scripts, 35% of the executions work on loaded values that are saved back, the rest "+
		"in place through storage references. Every logged observable, the error class of invalid indices, and after every commit the ledger-only digests (length + order-sensitive hash) of the three "+
		"containers are compared with a Go slice/map model; storage health every 10 executions and at the end. Both engines. Non-trivial: the sequence contains a bulk growth ≥ 60 elements (slab split), ≥ 2 "+
		"commit+reload boundaries and ≥ 1 failing index operation. Distinct by history.")

	if f := evid.ReplayFile(); f != "" {
		var hist storgen.ContHistory
		if err := evid.LoadReplay(f, &hist); err != nil {
			t.Fatalf("bad replay file: %v", err)
		}
		for _, eng := range host.Engines {
			if msg, _ := runContHistory(hist, eng, false, nil); msg != "" {
				rec.Violation(t, hist, "%s", msg)
			}
		}
		rec.Case(true, toJSON(hist))
		return
	}

	rapid.Check(t, func(rt *rapid.T) {
		hist := storgen.GenContHistory(storgen.FromRapid(rt), storgen.ContGenConfig{MaxExecs: evid.N(12, 30), MaxOps: evid.N(10, 12)})
		var facts contFacts
		for _, eng := range host.Engines {
			msg, f := runContHistory(hist, eng, false, nil)
			if msg != "" {
				rt.Fatalf("C20 violation: %s\n--- history (JSON, usable with --replay as {\"case\": …}):\n%s", msg, toJSON(hist))
			}
			facts = f
		}
		nt := facts.nontrivial()
		rec.Case(nt, toJSON(hist))
		rec.Class("elem/" + storgen.ElemName[hist.Elem])
		rec.Class("key/" + []string{"Int", "String"}[hist.Key])
		m := storgen.NewContModel(hist.Elem, hist.Key)
		nops := 0
		for _, e := range hist.Execs {
			x := m.Step(e)
			for i, o := range e.Ops {
				if i < len(x.Logs) || x.Fail == "" {
					rec.Class("op/" + o.On + "." + o.Kind)
					nops++
				}
			}
			switch {
			case x.Fail == "index":
				rec.Class("outcome/index-error")
			case x.Fail == "inject":
				rec.Class("outcome/abort")
			case e.Script:
				rec.Class("outcome/script")
			case e.Local:
				rec.Class("outcome/commit-local")
			default:
				rec.Class("outcome/commit-ref")
			}
		}
		rec.ClassN("operations", int64(nops))
		if facts.split {
			rec.Class("history/slab-split")
		}
		if facts.shrankBig {
			rec.Class("history/bulk-removal-or-big-element-removed")
		}
		if facts.maxLen >= 200 {
			rec.Class("history/len>=200")
		}
		for _, e := range hist.Execs {
			if !e.Local && len(e.Ops) > 0 && facts.maxLen >= 200 {
				switch k := e.Ops[0].Kind; k {
				case "contains", "firstIndex", "containsKey", "get", "slice", "length":
					rec.Class("first-op-after-reload/" + e.Ops[0].On + "." + k)
				}
			}
		}
		if nt && rec.WantSample(storgen.ElemName[hist.Elem]) {
			rec.Sample(storgen.ElemName[hist.Elem], describeContHistory(hist))
		}
	})
	rec.Extra("engines", []string{"interpreter", "vm"})
}
