package storage

import (
	"verif/lib/host"
	"verif/lib/storgen"
)

type contFacts struct {
	maxSlabs  int
	shrankBig bool
}

func runContHistory(hist storgen.ContHistory, eng host.Engine, health bool, hooks *execHooks) (string, contFacts) {
	return "", contFacts{}
}
