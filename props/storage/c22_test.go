package storage

import (
	"fmt"
	"math/bits"
	"strings"
	"sync"
	"testing"

	"github.com/onflow/cadence/common"
	"pgregory.net/rapid"

	"verif/lib/evid"
	"verif/lib/host"
	"verif/lib/storgen"
)

// ---------------------------------------------------------------- C22

var (
	mapBaseOnce sync.Once
	mapBase     map[host.Engine]*host.Host
	mapBaseErr  string
)

// mapBaseHost returns a fresh host with contract C deployed (forked from a per-engine base).
func mapBaseHost(e host.Engine) (*host.Host, string) {
	mapBaseOnce.Do(func() {
		mapBase = map[host.Engine]*host.Host{}
		for _, eng := range host.Engines {
			h := host.New()
			r := h.Deploy(host.Addr(1), "C", storgen.MapContract, eng)
			if r.Err != nil || r.Panic != nil {
				mapBaseErr = fmt.Sprintf("deploying the map contract failed on %s: %s", eng, errText(r))
				return
			}
			mapBase[eng] = h
		}
	})
	if mapBaseErr != "" {
		return nil, mapBaseErr
	}
	return mapBase[e].Fork(), ""
}

var mapSigners = []common.Address{host.Addr(1), host.Addr(2), host.Addr(3)}

// mapFacts are the history-level facts of the non-triviality rule.
type mapFacts struct {
	abortAfterMutation bool
	mismatch           bool
	accounts           int
	execs              int
	committed          int
	failed             int
	scripts            int
}

func (f mapFacts) nontrivial() bool {
	return f.abortAfterMutation && f.mismatch && bits.OnesCount(uint(f.accounts)) >= 2
}

// checkMapExec compares one executed step with the model's expectation.
func checkMapExec(i int, e storgen.MapExec, x storgen.MapExpect, r host.Result) string {
	where := fmt.Sprintf("exec %d (%s)", i, map[bool]string{true: "script", false: "transaction"}[e.Script])
	if r.Panic != nil {
		return fmt.Sprintf("%s: Go panic escaped the runtime: %v", where, r.Panic)
	}
	ci := host.Classify(r)
	if x.Fail == "" {
		if r.Err != nil {
			return fmt.Sprintf("%s: model expects success, got error: %s", where, errText(r))
		}
	} else {
		if r.Err == nil {
			return fmt.Sprintf("%s: model expects failure %q, but the execution succeeded (logs %v)", where, x.Fail, r.Logs)
		}
		if ci.Class != "user" || !ci.HasType(x.FailErrorType()) {
			return fmt.Sprintf("%s: model expects failure %q (%s), got class=%s types=%v: %s", where, x.Fail, x.FailErrorType(), ci.Class, ci.Types, errText(r))
		}
	}
	logs := unquoteAll(r.Logs)
	if len(logs) != len(x.Logs) {
		return fmt.Sprintf("%s: %d log lines, model expects %d\n  got:  %v\n  want: %v", where, len(logs), len(x.Logs), logs, x.Logs)
	}
	for k := range logs {
		if !x.Logs[k].Match(logs[k]) {
			return fmt.Sprintf("%s: log line %d is %q, model expects %s  (op: %s)", where, k, logs[k], x.Logs[k], opOfLog(e, logs[k]))
		}
	}
	return ""
}

func opOfLog(e storgen.MapExec, l string) string {
	var i int
	if _, err := fmt.Sscanf(l, "%d:", &i); err == nil && i < len(e.Ops) {
		return e.Ops[i].String()
	}
	return "?"
}

// verifyMapState runs the verification script (a fresh execution that can only see the ledger).
func verifyMapState(h *host.Host, eng host.Engine, st storgen.MapState) string {
	r := h.Script(storgen.MapVerifyScript, nil, host.Options{Engine: eng})
	if r.Err != nil || r.Panic != nil {
		return "verification script failed: " + errText(r)
	}
	got, err := stringArray(r.Value)
	if err != nil {
		return "verification script: " + err.Error()
	}
	got = storgen.CanonVerify(got)
	want := st.VerifyExpect()
	if len(got) != len(want) {
		return fmt.Sprintf("verification script returned %d lines, want %d", len(got), len(want))
	}
	for i := range got {
		if got[i] != want[i] {
			a, p := i/(storgen.MapPaths+1), i%(storgen.MapPaths+1)-1
			return fmt.Sprintf("committed state differs from the model at account a%d path index %d:\n  ledger: %s\n  model:  %s", a, p, got[i], want[i])
		}
	}
	return ""
}

// runMapHistory executes the history on one engine against the model. It returns a
// violation message ("" when everything agrees) and the history facts.
func runMapHistory(hist storgen.MapHistory, eng host.Engine, hooks *execHooks) (string, mapFacts) {
	var f mapFacts
	h, msg := mapBaseHost(eng)
	if msg != "" {
		return msg, f
	}
	m := &storgen.MapModel{}
	for i, e := range hist.Execs {
		x := m.Step(e)
		info := execInfo{idx: i, src: e.Source(), script: e.Script, expectFail: x.Fail != "", commits: x.Commits, mutatedFirst: x.Mutations > 0}
		if hooks != nil && hooks.before != nil {
			if msg := hooks.before(info, h, eng); msg != "" {
				return fmt.Sprintf("[%s] exec %d: %s\n--- source:\n%s", eng, i, msg, e.Source()), f
			}
		}
		var r host.Result
		digest, before := h.Ledger.Digest(), h.Ledger.Clone()
		if e.Script {
			snap := h.Snapshot()
			r = h.Script(e.Source(), nil, host.Options{Engine: eng})
			if d := h.Ledger.Digest(); d != digest {
				return fmt.Sprintf("[%s] exec %d: a script changed the ledger: %v\n--- source:\n%s", eng, i, h.Ledger.Diff(before), e.Source()), f
			}
			h.Restore(snap) // contract code changed by a script lives in the host, not in the ledger
		} else {
			st := e.Step()
			r = h.Tx(st.Source, nil, mapSigners, host.Options{Engine: eng})
		}
		if msg := checkMapExec(i, e, x, r); msg != "" {
			return fmt.Sprintf("[%s] %s\n--- source:\n%s", eng, msg, e.Source()), f
		}
		// Committed transactions: a fresh execution that only sees the ledger must observe exactly the
		// model state. Scripts and failed transactions must leave the ledger untouched (the host rolls a
		// failed transaction back itself, so only the script case carries information).
		if x.Commits {
			if msg := verifyMapState(h, eng, m.State); msg != "" {
				return fmt.Sprintf("[%s] after exec %d (%s, model outcome %q): %s\n--- source:\n%s", eng, i, kindOfExec(e), x.Fail, msg, e.Source()), f
			}
		} else if d := h.Ledger.Digest(); d != digest {
			return fmt.Sprintf("[%s] exec %d (%s, model outcome %q) changed the ledger: %v\n--- source:\n%s", eng, i, kindOfExec(e), x.Fail, h.Ledger.Diff(before), e.Source()), f
		}
		if hooks != nil && hooks.after != nil {
			if msg := hooks.after(info, r, h, eng); msg != "" {
				return fmt.Sprintf("[%s] exec %d: %s\n--- source:\n%s", eng, i, msg, e.Source()), f
			}
		}
		f.execs++
		f.accounts |= x.Accounts
		f.mismatch = f.mismatch || x.Mismatch
		switch {
		case e.Script:
			f.scripts++
		case x.Commits:
			f.committed++
		default:
			f.failed++
			if x.MutatedBeforeFail {
				f.abortAfterMutation = true
			}
		}
	}
	return "", f
}

func kindOfExec(e storgen.MapExec) string {
	if e.Script {
		return "script"
	}
	return "transaction"
}

func classifyMapHistory(rec *evid.Rec, hist storgen.MapHistory) {
	m := &storgen.MapModel{}
	for _, e := range hist.Execs {
		x := m.Step(e)
		for _, o := range e.Ops {
			rec.Class("op/" + o.Op)
		}
		switch {
		case e.Script && x.Fail == "":
			rec.Class("outcome/script-ok")
		case e.Script:
			rec.Class("outcome/script-" + x.Fail)
		case x.Fail == "":
			rec.Class("outcome/tx-committed")
		default:
			rec.Class("outcome/tx-" + x.Fail)
		}
		if x.MutatedBeforeFail && !e.Script {
			rec.Class("tx-failed-after-mutation")
		}
		if x.MutatedBeforeFail && e.Script {
			rec.Class("script-mutated-storage")
		}
		if x.Mismatch {
			rec.Class("type-mismatching-access")
		}
	}
}

func TestC22(t *testing.T) {
	rec := evid.Start(t, "C22", "model-steered random histories of ≤25 executions (transactions signed by 3 accounts / scripts, 1–5 operations each out of "+
		"save, load<T>, copy<T>, borrow<T>+read, check<T>, type(at:), storagePaths, forEachStored (with early stop), move between accounts) over 3 accounts × 4 paths, "+
		"7 value types × 12 type arguments (exact, AnyStruct, AnyResource, {I}, {RI}, [AnyStruct], unrelated), ~12% of transactions abort with a panic at the end or midway; every log line, error type and, after "+
		"every execution, a ledger-only verification script (storagePaths, type, value, check<T> for all T on all 12 cells) are compared with a Go map model on both engines. "+
		"Non-trivial: the history contains a transaction that failed/aborted after mutating storage, a type-mismatching access, and touches ≥ 2 accounts. Distinct by history.")

	if f := evid.ReplayFile(); f != "" {
		var hist storgen.MapHistory
		if err := evid.LoadReplay(f, &hist); err != nil {
			t.Fatalf("bad replay file: %v", err)
		}
		for _, eng := range host.Engines {
			if msg, _ := runMapHistory(hist, eng, nil); msg != "" {
				rec.Violation(t, hist, "%s", msg)
			}
		}
		rec.Case(true, toJSON(hist))
		return
	}

	cfg := storgen.MapGenConfig{MaxExecs: 25, MaxOps: 5}
	rapid.Check(t, func(rt *rapid.T) {
		hist := storgen.GenMapHistory(storgen.FromRapid(rt), cfg)
		var facts mapFacts
		for _, eng := range host.Engines {
			msg, f := runMapHistory(hist, eng, nil)
			if msg != "" {
				rt.Fatalf("C22 violation: %s\n--- history (JSON, usable with --replay as {\"case\": …}):\n%s", msg, toJSON(hist))
			}
			facts = f
		}
		nt := facts.nontrivial()
		rec.Case(nt, toJSON(hist))
		classifyMapHistory(rec, hist)
		rec.Class(fmt.Sprintf("accounts/%d", bits.OnesCount(uint(facts.accounts))))
		if nt && rec.WantSample("nontrivial") {
			rec.Sample("nontrivial", describeMapHistory(hist))
		}
		if !nt && rec.WantSample("trivial") {
			rec.Sample("trivial", describeMapHistory(hist))
		}
	})
	rec.Extra("engines", []string{"interpreter", "vm"})
}

func describeMapHistory(h storgen.MapHistory) []string {
	var out []string
	m := &storgen.MapModel{}
	for _, e := range h.Execs {
		x := m.Step(e)
		var ops []string
		for _, o := range e.Ops {
			ops = append(ops, o.String())
		}
		tail := ""
		if e.Inject != nil {
			tail = "; " + e.Inject.String()
		}
		res := "ok"
		if x.Fail != "" {
			res = "fails:" + x.Fail
		}
		out = append(out, fmt.Sprintf("%s{%s%s} => %s", kindOfExec(e), strings.Join(ops, "; "), tail, res))
	}
	return out
}
