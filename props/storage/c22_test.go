package storage

import (
	"fmt"
	"math/bits"
	"strings"
	"sync"
	"testing"

	"github.com/onflow/cadence/common"
	"pgregory.net/rapid"

	"verif/lib/evid"
	"verif/lib/host"
	"verif/lib/storgen"
)

// ---------------------------------------------------------------- C22

var (
	mapBaseOnce sync.Once
	mapBase     map[host.Engine]*host.Host
	mapBaseErr  string
)

// mapBaseHost returns a fresh host with contract C deployed (forked from a per-engine base).
func mapBaseHost(e host.Engine) (*host.Host, string) {
	mapBaseOnce.Do(func() {
		mapBase = map[host.Engine]*host.Host{}
		for _, eng := range host.Engines {
			h := host.New()
			r := h.Deploy(host.Addr(1), "C", storgen.MapContract, eng)
			if r.Err != nil || r.Panic != nil {
				mapBaseErr = fmt.Sprintf("deploying the map contract failed on %s: %s", eng, errText(r))
				return
			}
			mapBase[eng] = h
		}
	})
	if mapBaseErr != "" {
		return nil, mapBaseErr
	}
	return mapBase[e].Fork(), ""
}

var mapSigners = []common.Address{host.Addr(1), host.Addr(2), host.Addr(3)}

// mapFacts are the history-level facts of the non-triviality rule.
type mapFacts struct {
	abortAfterMutation bool
	mismatch           bool
	accounts           int
	execs              int
	committed          int
	failed             int
	scripts            int
}

func (f mapFacts) nontrivial() bool {
	return f.abortAfterMutation && f.mismatch && bits.OnesCount(uint(f.accounts)) >= 2
}

// checkMapExec compares one executed step with the model's expectation.
func checkMapExec(i int, e storgen.MapExec, x storgen.MapExpect, r host.Result) string {
	where := fmt.Sprintf("exec %d (%s)", i, map[bool]string{true: "script", false: "transaction"}[e.Script])
	if r.Panic != nil {
		return fmt.Sprintf("%s: Go panic escaped the runtime: %v", where, r.Panic)
	}
	ci := host.Classify(r)
	if x.Fail == "" {
		if r.Err != nil {
			return fmt.Sprintf("%s: model expects success, got error: %s", where, errText(r))
		}
	} else {
		if r.Err == nil {
			return fmt.Sprintf("%s: model expects failure %q, but the execution succeeded (logs %v)", where, x.Fail, r.Logs)
		}
		if ci.Class != "user" || !ci.HasType(x.FailErrorType()) {
			return fmt.Sprintf("%s: model expects failure %q (%s), got class=%s types=%v: %s", where, x.Fail, x.FailErrorType(), ci.Class, ci.Types, errText(r))
		}
	}
	logs := unquoteAll(r.Logs)
	if len(logs) != len(x.Logs) {
		return fmt.Sprintf("%s: %d log lines, model expects %d\n  got:  %v\n  want: %v", where, len(logs), len(x.Logs), logs, x.Logs)
	}
	for k := range logs {
		if !x.Logs[k].Match(logs[k]) {
			return fmt.Sprintf("%s: log line %d is %q, model expects %s  (op: %s)", where, k, logs[k], x.Logs[k], opOfLog(e, logs[k]))
		}
	}
	return ""
}

func opOfLog(e storgen.MapExec, l string) string {
	var i int
	if _, err := fmt.Sscanf(l, "%d:", &i); err == nil && i < len(e.Ops) {
		return e.Ops[i].String()
	}
	return "?"
}

// verifyMapState runs the verification script (a fresh execution that can only see the ledger).
func verifyMapState(h *host.Host, eng host.Engine, st storgen.MapState) string {
	r := h.Script(storgen.MapVerifyScript, nil, host.Options{Engine: eng})
	if r.Err != nil || r.Panic != nil {
		return "verification script failed: " + errText(r)
	}
	got, err := stringArray(r.Value)
	if err != nil {
		return "verification script: " + err.Error()
	}
	got = storgen.CanonVerify(got)
	want := st.VerifyExpect()
	if len(got) != len(want) {
		return fmt.Sprintf("verification script returned %d lines, want %d", len(got), len(want))
	}
	for i := range got {
		if got[i] != want[i] {
			a, p := i/(storgen.MapPaths+1), i%(storgen.MapPaths+1)-1
			return fmt.Sprintf("committed state differs from the model at account a%d path index %d:\n  ledger: %s\n  model:  %s", a, p, got[i], want[i])
		}
	}
	return ""
}

// runMapHistory executes the history on one engine against the model. It returns a
// violation message ("" when everything agrees) and the history facts.
func runMapHistory(hist storgen.MapHistory, eng host.Engine, hooks *execHooks) (string, mapFacts) {
	var f mapFacts
	h, msg := mapBaseHost(eng)
	if msg != "" {
		return msg, f
	}
	m := &storgen.MapModel{}
	for i, e := range hist.Execs {
		x := m.Step(e)
		info := execInfo{idx: i, src: e.Source(), script: e.Script, expectFail: x.Fail != "", commits: x.Commits, mutatedFirst: x.Mutations > 0}
		if hooks != nil && hooks.before != nil {
			if msg := hooks.before(info, h, eng); msg != "" {
				return fmt.Sprintf("[%s] exec %d: %s\n--- source:\n%s", eng, i, msg, e.Source()), f
			}
		}
		var r host.Result
		digest, before := h.Ledger.Digest(), h.Ledger.Clone()
		if e.Script {
			snap := h.Snapshot()
			r = h.Script(e.Source(), nil, host.Options{Engine: eng})
			if d := h.Ledger.Digest(); d != digest {
				return fmt.Sprintf("[%s] exec %d: a script changed the ledger: %v\n--- source:\n%s", eng, i, h.Ledger.Diff(before), e.Source()), f
			}
			h.Restore(snap) // contract code changed by a script lives in the host, not in the ledger
		} else {
			st := e.Step()
			r = h.Tx(st.Source, nil, mapSigners, host.Options{Engine: eng})
		}
		if msg := checkMapExec(i, e, x, r); msg != "" {
			return fmt.Sprintf("[%s] %s\n--- source:\n%s", eng, msg, e.Source()), f
		}
		// Committed transactions: a fresh execution that only sees the ledger must observe exactly the
		// model state. Scripts and failed transactions must leave the ledger untouched (the host rolls a
		// failed transaction back itself, so only the script case carries information).
		if x.Commits {
			if msg := verifyMapState(h, eng, m.State); msg != "" {
				return fmt.Sprintf("[%s] after exec %d (%s, model outcome %q): %s\n--- source:\n%s", eng, i, kindOfExec(e), x.Fail, msg, e.Source()), f
			}
		} else if d := h.Ledger.Digest(); d != digest {
			return fmt.Sprintf("[%s] exec %d (%s, model outcome %q) changed the ledger: %v\n--- source:\n%s", eng, i, kindOfExec(e), x.Fail, h.Ledger.Diff(before), e.Source()), f
		}
		if hooks != nil && hooks.after != nil {
			if msg := hooks.after(info, r, h, eng); msg != "" {
				return fmt.Sprintf("[%s] exec %d: %s\n--- source:\n%s", eng, i, msg, e.Source()), f
			}
		}
		f.execs++
		f.accounts |= x.Accounts
		f.mismatch = f.mismatch || x.Mismatch
		switch {
		case e.Script:
			f.scripts++
		case x.Commits:
			f.committed++
		default:
			f.failed++
			if x.MutatedBeforeFail {
				f.abortAfterMutation = true
			}
		}
	}
	return "", f
}

func kindOfExec(e storgen.MapExec) string {
	if e.Script {
		return "script"
	}
	return "transaction"
}

func classifyMapHistory(rec *evid.Rec, hist storgen.MapHistory) {
	m := &storgen.MapModel{}
	for _, e := range hist.Execs {
		x := m.Step(e)
		for _, o := range e.Ops {
			rec.Class("op/" + o.Op)
		}
		switch {
		case e.Script && x.Fail == "":
			rec.Class("outcome/script-ok")
		case e.Script:
			rec.Class("outcome/script-" + x.Fail)
		case x.Fail == "":
			rec.Class("outcome/tx-committed")
		default:
			rec.Class("outcome/tx-" + x.Fail)
		}
		if x.MutatedBeforeFail && !e.Script {
			rec.Class("tx-failed-after-mutation")
		}
		if x.MutatedBeforeFail && e.Script {
			rec.Class("script-mutated-storage")
		}
		if x.Mismatch {
			rec.Class("type-mismatching-access")
		}
	}
}

func TestC22(t *testing.T) {
	rec := evid.Start(t, "C22", "model-steered random histories of ≤25 executions (transactions signed by 3 accounts / scripts, 1–5 operations each out of "+
		"save, load<T>, copy<T>, borrow<T>+read, check<T>, type(at:), storagePaths, forEachStored (with early stop), move between accounts) over 3 accounts × 4 paths, "+
		"7 value types × 12 type arguments (exact, AnyStruct, AnyResource, {I}, {RI}, [AnyStruct], unrelated), ~12% of transactions abort with a panic at the end or midway; every log line, error type and, after "+
		"every execution, a ledger-only verification script (storagePaths, type, value, check<T> for all T on all 12 cells) are compared with a Go map model on both engines. "+
		"Non-trivial: the history contains a transaction that failed/aborted after mutating storage, a type-mismatching access, and touches ≥ 2 accounts. Distinct by history. "+
		"Stored values also come as T?, T?? and nil, type arguments as T, T?, T??; before the random histories the finite space of all (stored form × type argument × {load, copy, borrow, check, type}) "+
		"cells is enumerated completely, one transaction per cell (counted as evaluations, never as non-trivial).")

	if f := evid.ReplayFile(); f != "" {
		var hist storgen.MapHistory
		if err := evid.LoadReplay(f, &hist); err != nil {
			t.Fatalf("bad replay file: %v", err)
		}
		for _, eng := range host.Engines {
			if msg, _ := runMapHistory(hist, eng, nil); msg != "" {
				rec.Violation(t, hist, "%s", msg)
			}
		}
		rec.Case(true, toJSON(hist))
		return
	}

	if rec.Known("FG3") {
		rec.ReportKnown("FG3", fg3Repro())
	}
	if evid.Shard() == 0 { // the finite cell space is enumerated once, not once per shard
		sweepMapCells(t, rec)
	}

	cfg := storgen.MapGenConfig{MaxExecs: 25, MaxOps: 5}
	rapid.Check(t, func(rt *rapid.T) {
		hist := storgen.GenMapHistory(storgen.FromRapid(rt), cfg)
		if rec.Known("FG3") && mapHistoryHitsFG3(hist) {
			rec.Excluded("FG3")
			return
		}
		var facts mapFacts
		for _, eng := range host.Engines {
			msg, f := runMapHistory(hist, eng, nil)
			if msg != "" {
				rt.Fatalf("C22 violation: %s\n--- history (JSON, usable with --replay as {\"case\": …}):\n%s", msg, toJSON(hist))
			}
			facts = f
		}
		nt := facts.nontrivial()
		rec.Case(nt, toJSON(hist))
		classifyMapHistory(rec, hist)
		rec.Class(fmt.Sprintf("accounts/%d", bits.OnesCount(uint(facts.accounts))))
		if nt && rec.WantSample("nontrivial") {
			rec.Sample("nontrivial", describeMapHistory(hist))
		}
		if !nt && rec.WantSample("trivial") {
			rec.Sample("trivial", describeMapHistory(hist))
		}
	})
	rec.Extra("engines", []string{"interpreter", "vm"})
}

func describeMapHistory(h storgen.MapHistory) []string {
	var out []string
	m := &storgen.MapModel{}
	for _, e := range h.Execs {
		x := m.Step(e)
		var ops []string
		for _, o := range e.Ops {
			ops = append(ops, o.String())
		}
		tail := ""
		if e.Inject != nil {
			tail = "; " + e.Inject.String()
		}
		res := "ok"
		if x.Fail != "" {
			res = "fails:" + x.Fail
		}
		out = append(out, fmt.Sprintf("%s{%s%s} => %s", kindOfExec(e), strings.Join(ops, "; "), tail, res))
	}
	return out
}

// ---- exhaustive (stored type × type argument) cell sweep -----------------------------

// sweepForms are the stored values of the sweep: every kind plain, as T? and as T??, and nil declared as Int? / @R?.
func sweepForms() []storgen.MapOp {
	var out []storgen.MapOp
	for k := 0; k < storgen.NKinds; k++ {
		for _, f := range []int{storgen.FPlain, storgen.FSome, storgen.FSomeSome} {
			out = append(out, storgen.MapOp{Op: "save", A: 1, P: 1, K: k, N: 7 + k, F: f})
		}
	}
	out = append(out, storgen.MapOp{Op: "save", A: 1, P: 1, K: storgen.KInt, N: 3, F: storgen.FNil})
	out = append(out, storgen.MapOp{Op: "save", A: 1, P: 1, K: storgen.KR, N: 3, F: storgen.FNil})
	return out
}

// sweepMapCells runs, for every stored form and every type argument T, T?, T?? (12 base types), the
// operations load<T>, copy<T> (struct-kinded T), borrow<&T> (non-optional T), and once per form check<T>
// for all T and type(at:), each as its own transaction on a fork of a ledger holding just that value, on
// both engines, against the model (harness-side subtype relation). The space is finite and enumerated completely.
func sweepMapCells(t *testing.T, rec *evid.Rec) {
	type row struct{ Load, Copy, Borrow, Check []byte }
	cols := []string{}
	for td := 0; td <= storgen.MaxTArgDepth; td++ {
		for ta := 0; ta < storgen.NTArgs; ta++ {
			cols = append(cols, storgen.TArgString(ta, td))
		}
	}
	nCols := len(cols)
	matrix := map[string]*row{}
	var order []string
	cells, accepted, rejected := 0, 0, 0
	copyOK := map[int]bool{storgen.KInt: true, storgen.KString: true, storgen.KArr: true, storgen.KS: true, storgen.KS2: true, storgen.TAnyStruct: true, storgen.TI: true, storgen.TArrAny: true}
	for _, save := range sweepForms() {
		dyn := storgen.DynOf(save.K, save.F)
		name := dyn.String()
		if save.F == storgen.FNil {
			name += " (nil declared as " + storgen.KindName[save.K] + "?)"
		}
		rw := &row{Load: []byte(strings.Repeat(".", nCols)), Copy: []byte(strings.Repeat(".", nCols)), Borrow: []byte(strings.Repeat(".", nCols)), Check: []byte(strings.Repeat(".", nCols))}
		matrix[name] = rw
		order = append(order, name)
		for _, eng := range host.Engines {
			base, msg := mapBaseHost(eng)
			if msg != "" {
				rec.Violation(t, save, "%s", msg)
			}
			m0 := &storgen.MapModel{}
			e0 := storgen.MapExec{Ops: []storgen.MapOp{save}}
			x0 := m0.Step(e0)
			r0 := base.Tx(e0.Source(), nil, mapSigners, host.Options{Engine: eng})
			if msg := checkMapExec(0, e0, x0, r0); msg != "" {
				rec.Violation(t, e0, "[%s] sweep: saving %s: %s\n%s", eng, name, msg, e0.Source())
			}
			if msg := verifyMapState(base, eng, m0.State); msg != "" {
				rec.Violation(t, e0, "[%s] sweep: after saving %s: %s", eng, name, msg)
			}
			runCell := func(e storgen.MapExec, verify bool) storgen.MapExpect {
				h := base.Fork()
				m := &storgen.MapModel{State: m0.State}
				x := m.Step(e)
				r := h.Tx(e.Source(), nil, mapSigners, host.Options{Engine: eng})
				if msg := checkMapExec(1, e, x, r); msg != "" {
					rec.Violation(t, map[string]any{"stored": save, "exec": e}, "[%s] sweep cell (stored %s; %s): %s\n--- source:\n%s", eng, name, e.Ops[0], msg, e.Source())
				}
				if verify && x.Commits {
					if msg := verifyMapState(h, eng, m.State); msg != "" {
						rec.Violation(t, map[string]any{"stored": save, "exec": e}, "[%s] sweep cell (stored %s; %s): %s", eng, name, e.Ops[0], msg)
					}
				}
				return x
			}
			mark := func(b []byte, col int, x storgen.MapExpect) {
				if x.Fail == "" {
					b[col] = '+'
				} else {
					b[col] = '-'
				}
			}
			for td := 0; td <= storgen.MaxTArgDepth; td++ {
				for ta := 0; ta < storgen.NTArgs; ta++ {
					col := td*storgen.NTArgs + ta
					op := storgen.MapOp{A: 1, P: 1, T: ta, TD: td, Generic: true}
					op.Op = "load"
					x := runCell(storgen.MapExec{Ops: []storgen.MapOp{op}}, true)
					mark(rw.Load, col, x)
					n := 1
					if copyOK[ta] {
						op.Op = "copy"
						mark(rw.Copy, col, runCell(storgen.MapExec{Ops: []storgen.MapOp{op}}, false))
						n++
					}
					if td == 0 {
						op.Op = "borrow"
						if rec.Known("FG3") && save.F == storgen.FNil && ta == storgen.TAnyResource {
							rec.Excluded("FG3")
							rw.Borrow[col] = 'x'
						} else {
							mark(rw.Borrow, col, runCell(storgen.MapExec{Ops: []storgen.MapOp{op}}, false))
						}
						n++
					}
					if storgen.SubDyn(dyn, ta, td) {
						rw.Check[col] = '+'
					} else {
						rw.Check[col] = '-'
					}
					if eng == host.Engines[0] {
						cells += n + 1
						if x.Fail == "" {
							accepted++
						} else {
							rejected++
						}
					}
				}
			}
			// check<T> for every T in one transaction (never fails), then type(at:)
			var ops []storgen.MapOp
			for td := 0; td <= storgen.MaxTArgDepth; td++ {
				for ta := 0; ta < storgen.NTArgs; ta++ {
					ops = append(ops, storgen.MapOp{Op: "check", A: 1, P: 1, T: ta, TD: td})
				}
			}
			ops = append(ops, storgen.MapOp{Op: "type", A: 1, P: 1}, storgen.MapOp{Op: "each", A: 1}, storgen.MapOp{Op: "paths", A: 1})
			runCell(storgen.MapExec{Ops: ops}, false)
		}
		rec.Case(false, "sweep", name)
		rec.Class("sweep/stored-form")
	}
	rows := map[string]any{}
	for _, n := range order {
		r := matrix[n]
		rows[n] = map[string]string{"load": string(r.Load), "copy": string(r.Copy), "borrow": string(r.Borrow), "check": string(r.Check)}
	}
	rec.Extra("cell_matrix", map[string]any{
		"legend":  "one character per type-argument column: '+' accepted by the model and by both engines, '-' rejected with StoredValueTypeMismatchError (check: false), '.' not applicable (copy needs a struct-kinded T, borrow a non-optional T), 'x' excluded (known finding)",
		"columns": cols,
		"rows":    rows,
	})
	rec.Extra("cell_sweep", map[string]any{"stored_forms": len(order), "type_arguments": nCols, "operation_cells_per_engine": cells,
		"load_accepted": accepted, "load_rejected": rejected, "exhaustive": "all (stored form × type argument × {load, copy, borrow, check}) cells, both engines"})
	rec.ClassN("sweep/operation-cells", int64(cells))
	rec.Evals(int64(cells - len(order))) // every operation cell was executed (on both engines); the forms themselves were counted above
}

// mapHistoryHitsFG3 is the narrow predicate of finding FG3: a borrow<&AnyResource> that reaches a path holding a stored nil.
func mapHistoryHitsFG3(hist storgen.MapHistory) bool {
	m := &storgen.MapModel{}
	for _, e := range hist.Execs {
		scratch := &storgen.MapModel{State: m.State}
		for i, o := range e.Ops {
			if e.Inject.InBody() && e.Inject.Pos == i {
				break
			}
			if c := scratch.State[o.A][o.P]; o.Op == "borrow" && o.T == storgen.TAnyResource && c != nil && c.F == storgen.FNil {
				return true
			}
			if !scratch.Apply(o) {
				break
			}
		}
		m.Step(e)
	}
	return false
}

func fg3Repro() bool {
	for _, eng := range host.Engines {
		h, msg := mapBaseHost(eng)
		if msg != "" {
			return true
		}
		r := h.Tx(`transaction { prepare(a: auth(Storage) &Account) { let n: Int? = nil; a.storage.save(n, to: /storage/x); if a.storage.check<@AnyResource>(from: /storage/x) { let r = a.storage.borrow<&AnyResource>(from: /storage/x) } } }`,
			nil, mapSigners[:1], host.Options{Engine: eng})
		if r.Err != nil {
			return true
		}
	}
	return false
}
