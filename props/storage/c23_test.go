package storage

import (
	"fmt"
	"sync"
	"testing"

	"pgregory.net/rapid"

	"verif/lib/evid"
	"verif/lib/host"
	"verif/lib/storgen"
)

// ---------------------------------------------------------------- C23

var (
	nestBaseOnce sync.Once
	nestBase     map[host.Engine]*host.Host
	nestBaseErr  string
)

func nestBaseHost(e host.Engine) (*host.Host, string) {
	nestBaseOnce.Do(func() {
		nestBase = map[host.Engine]*host.Host{}
		for _, eng := range host.Engines {
			h := host.New()
			r := h.Deploy(host.Addr(1), "N", storgen.NestContract, eng)
			if r.Err != nil || r.Panic != nil {
				nestBaseErr = fmt.Sprintf("deploying the nest contract failed on %s: %s", eng, errText(r))
				return
			}
			nestBase[eng] = h
		}
	})
	if nestBaseErr != "" {
		return nil, nestBaseErr
	}
	return nestBase[e].Fork(), ""
}

// healthOf runs the whole-ledger check and formats a failure.
func healthOf(h *host.Host) (host.HealthReport, string) {
	rep, err := host.Health(h.Ledger, false)
	if err != nil {
		return rep, fmt.Sprintf("committed storage is unhealthy: %v (%s)", err, rep)
	}
	return rep, ""
}

type nestFacts struct {
	removedSlabby int
	removals      int
	moves         int
	maxSlabs      int
	committed     int
	aborted       int
	scripts       int
	addThenRemove bool
	overwroteMulti int
}

func (f nestFacts) nontrivial() bool { return f.maxSlabs >= 3 && f.removedSlabby >= 1 }

// nestHistoryHitsFG1 is the narrow predicate of finding FG1: a transaction that commits adds a
// contract and removes the same contract again.
func nestHistoryHitsFG1(hist storgen.NestHistory) bool {
	m := storgen.NewNestModel()
	for _, e := range hist.Execs {
		f, commits, valid := m.Step(e)
		if !valid {
			return false
		}
		if commits && f.AddThenRemove {
			return true
		}
	}
	return false
}

// runNestHistory executes the history on one engine. After every committed transaction the
// ledger must be healthy and the ledger-only description must equal the model's.
func runNestHistory(hist storgen.NestHistory, eng host.Engine, hooks *execHooks) (string, nestFacts) {
	var facts nestFacts
	h, msg := nestBaseHost(eng)
	if msg != "" {
		return msg, facts
	}
	m := storgen.NewNestModel()
	for i, e := range hist.Execs {
		f, commits, valid := m.Step(e)
		if !valid {
			return fmt.Sprintf("invalid history: exec %d contains an operation that is not applicable", i), facts
		}
		facts.removedSlabby += f.RemovedSlabby
		facts.removals += f.Removals
		facts.moves += f.Moves
		if commits {
			facts.overwroteMulti += f.OverwroteMultiSlab
		}
		facts.addThenRemove = facts.addThenRemove || (commits && f.AddThenRemove)
		info := execInfo{idx: i, src: e.Source(), script: e.Script, expectFail: e.Inject != nil, commits: commits,
			mutatedFirst: (e.Inject == nil && len(e.Ops) > 0) || (e.Inject != nil && (e.Inject.Mutate != "" || e.Inject.Kind == "mismatch-load" || !e.Inject.InBody() || e.Inject.Pos > 0))}
		if hooks != nil && hooks.before != nil {
			if msg := hooks.before(info, h, eng); msg != "" {
				return fmt.Sprintf("[%s] exec %d: %s\n--- source:\n%s", eng, i, msg, e.Source()), facts
			}
		}
		digest := h.Ledger.Digest()
		// validation off: an unhealthy commit must become visible to the check below instead of
		// being turned into a failed transaction by the runtime's own post-commit validation
		var r host.Result
		opts := host.Options{Engine: eng, NoAtreeValidation: true}
		if e.Script {
			snap := h.Snapshot()
			r = h.Script(e.Source(), nil, opts)
			if d := h.Ledger.Digest(); d != digest {
				return fmt.Sprintf("[%s] exec %d: a script changed the ledger\n--- source:\n%s", eng, i, e.Source()), facts
			}
			h.Restore(snap) // contract code changed by a script lives in the host, not in the ledger
		} else {
			r = h.Tx(e.Source(), nil, mapSigners, opts)
		}
		where := fmt.Sprintf("[%s] exec %d", eng, i)
		if r.Panic != nil {
			return fmt.Sprintf("%s: Go panic escaped the runtime: %v\n--- source:\n%s", where, r.Panic, e.Source()), facts
		}
		switch {
		case commits:
			facts.committed++
			if r.Err != nil {
				return fmt.Sprintf("%s: the model expects the transaction to commit, got: %s\n--- source:\n%s", where, errText(r), e.Source()), facts
			}
			rep, msg := healthOf(h)
			if msg != "" {
				return fmt.Sprintf("%s: %s\n--- source:\n%s", where, msg, e.Source()), facts
			}
			facts.maxSlabs = max(facts.maxSlabs, rep.SlabRegisters)
			if msg := verifyNestState(h, eng, m); msg != "" {
				return fmt.Sprintf("%s: %s\n--- source:\n%s", where, msg, e.Source()), facts
			}
		case e.Inject != nil:
			facts.aborted++
			want := e.Inject.ErrorType()
			if e.Script && !e.Inject.InBody() {
				want = "PanicError"
			}
			ci := host.Classify(r)
			if r.Err == nil || !ci.HasType(want) {
				return fmt.Sprintf("%s: the model expects the execution to fail with %s, got: %s\n--- source:\n%s", where, want, errText(r), e.Source()), facts
			}
			if h.Ledger.Digest() != digest {
				return fmt.Sprintf("%s: failed execution changed the ledger", where), facts
			}
		default: // script without injected failure
			facts.scripts++
			if r.Err != nil {
				return fmt.Sprintf("%s: the model expects the script to succeed, got: %s\n--- source:\n%s", where, errText(r), e.Source()), facts
			}
		}
		if hooks != nil && hooks.after != nil {
			if msg := hooks.after(info, r, h, eng); msg != "" {
				return fmt.Sprintf("%s: %s\n--- source:\n%s", where, msg, e.Source()), facts
			}
		}
	}
	return "", facts
}

func verifyNestState(h *host.Host, eng host.Engine, m *storgen.NestModel) string {
	r := h.Script(storgen.NestVerifyScript, nil, host.Options{Engine: eng})
	if r.Err != nil || r.Panic != nil {
		return "a stored value cannot be read back: verification script failed: " + errText(r)
	}
	got, err := stringArray(r.Value)
	if err != nil {
		return "verification script: " + err.Error()
	}
	want := m.S.VerifyExpect()
	if len(got) != len(want) {
		return fmt.Sprintf("verification script returned %d lines, want %d", len(got), len(want))
	}
	for i := range got {
		if got[i] != want[i] {
			return fmt.Sprintf("stored state differs from the model at line %d:\n  ledger: %s\n  model:  %s", i, got[i], want[i])
		}
	}
	return ""
}

// fg1Repro re-runs the minimal reproduction of FG1 and reports whether it still fails.
func fg1Repro() bool {
	for _, eng := range host.Engines {
		h := host.New()
		r := h.Tx(`transaction { prepare(a: auth(Contracts) &Account) { a.contracts.add(name: "T", code: "access(all) contract T {}".utf8); a.contracts.remove(name: "T") } }`,
			nil, mapSigners[:1], host.Options{Engine: eng, NoAtreeValidation: true})
		if r.Err != nil || r.Panic != nil {
			return true
		}
		if _, err := host.Health(h.Ledger, false); err != nil {
			return true
		}
	}
	return false
}

func describeNestHistory(h storgen.NestHistory) []string {
	var out []string
	for _, e := range h.Execs {
		s := "tx{"
		for i, o := range e.Ops {
			if i > 0 {
				s += "; "
			}
			s += o.String()
		}
		if e.Inject != nil {
			s += "; " + e.Inject.String()
		}
		if e.Script {
			s = "script" + s[2:]
		}
		out = append(out, s+"}")
	}
	return out
}

func TestC23(t *testing.T) {
	rec := evid.Start(t, "C23", "after EVERY committed transaction of a generated history a fresh runtime.Storage is built over the ledger, every $-slab register and every "+
		"account storage root is loaded, Storage.CheckHealth() must pass, every stored value is rendered, the number of slab registers must equal the slabs reachable from the roots "+
		"(independent walk), and a ledger-only script must describe the stored state exactly as the Go model does. Histories: (60%) removal-heavy nest histories over resources "+
		"with arrays/big strings/dictionaries of arrays/struct fields/optional fields/nested resources in dictionary, array and optional/attachments, moved between accounts, destroyed, "+
		"overwritten (field assignment, index assignment into [[Int]] / [[Int]?] / [[[Int]]] and key assignment into {String: {Int: Int}} over old values of up to 1000 elements spanning several slabs, resource array/dictionary elements replaced), mutated through references, plus contract add/update/remove; (20%) the C22 typed-map histories; (20%) the C20 container histories; atree validation is off so an unhealthy "+
		"commit is observed by the check rather than by the runtime. Non-trivial: the ledger reached ≥ 3 slab registers and the history removed/overwrote/moved ≥ 1 non-inlined nested container. "+
		"Distinct by history. Both engines.")
	if rec.Known("FG1") {
		rec.ReportKnown("FG1", fg1Repro())
	}

	if f := evid.ReplayFile(); f != "" {
		var c struct {
			Family string              `json:"family"`
			Nest   storgen.NestHistory `json:"nest"`
			Map    storgen.MapHistory  `json:"map"`
			Cont   storgen.ContHistory `json:"cont"`
		}
		if err := evid.LoadReplay(f, &c); err != nil {
			t.Fatalf("bad replay file: %v", err)
		}
		for _, eng := range host.Engines {
			var msg string
			switch c.Family {
			case "map":
				msg, _ = runMapHistory(c.Map, eng, healthHooks)
			case "cont":
				msg, _ = runContHistory(c.Cont, eng, true, nil)
			default:
				msg, _ = runNestHistory(c.Nest, eng, nil)
			}
			if msg != "" {
				rec.Violation(t, c, "%s", msg)
			}
		}
		rec.Case(true, toJSON(c))
		return
	}

	rapid.Check(t, func(rt *rapid.T) {
		src := storgen.FromRapid(rt)
		switch fam := src.Intn("family", 10); {
		case fam < 6:
			hist := storgen.GenNestHistory(src, storgen.NestGenConfig{MaxExecs: 20, MaxOps: 4})
			if rec.Known("FG1") && nestHistoryHitsFG1(hist) {
				rec.Excluded("FG1")
				return
			}
			var facts nestFacts
			for _, eng := range host.Engines {
				msg, f := runNestHistory(hist, eng, nil)
				if msg != "" {
					rt.Fatalf("C23 violation: %s\n--- replay case:\n%s", msg, toJSON(map[string]any{"family": "nest", "nest": hist}))
				}
				facts = f
			}
			nt := facts.nontrivial()
			rec.Case(nt, "nest", toJSON(hist))
			rec.Class("family/nest")
			for _, e := range hist.Execs {
				for _, o := range e.Ops {
					rec.Class("nestop/" + o.Kind)
				}
			}
			rec.ClassN("nest/committed-tx", int64(facts.committed))
			rec.ClassN("nest/aborted-tx", int64(facts.aborted))
			rec.ClassN("nest/removed-noninlined-container", int64(facts.removedSlabby))
			rec.ClassN("nest/moves", int64(facts.moves))
			rec.ClassN("nest/overwrote-multislab-container-by-index-or-key", int64(facts.overwroteMulti))
			if facts.maxSlabs >= 10 {
				rec.Class("nest/ledger>=10-slabs")
			}
			if nt && rec.WantSample("nest") {
				rec.Sample("nest", describeNestHistory(hist))
			}
		case fam < 8:
			hist := storgen.GenMapHistory(src, storgen.MapGenConfig{MaxExecs: 20, MaxOps: 5, AvoidNilBorrowAnyResource: true})
			var facts mapFacts
			maxSlabs := 0
			for _, eng := range host.Engines {
				msg, f := runMapHistory(hist, eng, &execHooks{after: func(info execInfo, r host.Result, h *host.Host, _ host.Engine) string {
					if !info.commits {
						return ""
					}
					rep, msg := healthOf(h)
					maxSlabs = max(maxSlabs, rep.SlabRegisters)
					return msg
				}})
				if msg != "" {
					rt.Fatalf("C23 violation: %s\n--- replay case:\n%s", msg, toJSON(map[string]any{"family": "map", "map": hist}))
				}
				facts = f
			}
			// loads / moves of the big values (150-element arrays, 600-byte strings, S/R with ≥ 120 elements) remove non-inlined containers
			nt := maxSlabs >= 3 && mapHistoryRemovesBig(hist)
			rec.Case(nt, "map", toJSON(hist))
			rec.Class("family/map")
			_ = facts
		default:
			hist := storgen.GenContHistory(src, storgen.ContGenConfig{MaxExecs: 12, MaxOps: 6})
			var facts contFacts
			for _, eng := range host.Engines {
				msg, f := runContHistory(hist, eng, true, nil)
				if msg != "" {
					rt.Fatalf("C23 violation: %s\n--- replay case:\n%s", msg, toJSON(map[string]any{"family": "cont", "cont": hist}))
				}
				facts = f
			}
			nt := facts.maxSlabs >= 3 && facts.shrankBig
			rec.Case(nt, "cont", toJSON(hist))
			rec.Class("family/cont")
		}
	})
	rec.Extra("engines", []string{"interpreter", "vm"})
}

// healthHooks is the C23 hook for foreign histories: health after every committed transaction.
var healthHooks = &execHooks{after: func(info execInfo, r host.Result, h *host.Host, _ host.Engine) string {
	if !info.commits {
		return ""
	}
	_, msg := healthOf(h)
	return msg
}}

// mapHistoryRemovesBig: a committed transaction loads or moves a value that is stored in its own slab(s).
func mapHistoryRemovesBig(hist storgen.MapHistory) bool {
	m := &storgen.MapModel{}
	for _, e := range hist.Execs {
		before := m.State
		x := m.Step(e)
		if !x.Commits {
			continue
		}
		for _, o := range e.Ops {
			if o.Op != "load" && o.Op != "move" {
				continue
			}
			if c := before[o.A][o.P]; c != nil && storgen.MapValueIsBig(c.K, c.N) {
				return true
			}
		}
	}
	return false
}
