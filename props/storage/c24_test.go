package storage

import (
	"fmt"
	"math/rand"
	"strings"
	"testing"

	"github.com/onflow/cadence"
	"github.com/onflow/cadence/common"
	"pgregory.net/rapid"

	"verif/lib/evid"
	"verif/lib/host"
	"verif/lib/storgen"
)

// ---------------------------------------------------------------- C24

// writeDiscipline is the C24 oracle over one execution's host trace.
//
//	script                 => zero SetValue
//	failed transaction     => zero SetValue
//	successful transaction => every SetValue comes after the ProgramLog("END") entry
func writeDiscipline(script bool, r host.Result) string {
	failed := r.Err != nil || r.Panic != nil
	switch {
	case script:
		if n := len(r.Writes); n != 0 {
			return fmt.Sprintf("script issued %d SetValue calls (first: %s)", n, describeWrite(r.Writes[0]))
		}
	case failed:
		if n := len(r.Writes); n != 0 {
			return fmt.Sprintf("failed transaction issued %d SetValue calls (first: %s); error: %s", n, describeWrite(r.Writes[0]), errText(r))
		}
	default:
		end := endMarkerPos(r)
		if end < 0 {
			return "successful transaction never logged its END marker"
		}
		for _, w := range r.Writes {
			if w.TracePos < end {
				return fmt.Sprintf("successful transaction issued SetValue (%s) at trace position %d, before its code finished (END marker at %d)", describeWrite(w), w.TracePos, end)
			}
		}
	}
	return ""
}

func describeWrite(w host.Write) string {
	return fmt.Sprintf("owner=%x key=%q len=%d", w.Owner, w.Key, len(w.Value))
}

// hitsFG2 is the narrow predicate of finding FG2: a transaction run under a metering limit that hit the
// limit after its code had finished (END marker logged), i.e. inside Storage.commit, and whose only
// writes are account storage root ("stored") registers.
func hitsFG2(script bool, r host.Result, lim *host.Gauge) bool {
	if script || r.Err == nil || !lim.LimitHit() || endMarkerPos(r) < 0 || len(r.Writes) == 0 {
		return false
	}
	ci := host.Classify(r)
	if !ci.HasType("MemoryLimitError") && !ci.HasType("ComputationLimitError") {
		return false
	}
	for _, w := range r.Writes {
		if string(w.Key) != "stored" {
			return false
		}
	}
	return true
}

// fg2Repro re-runs the minimal reproduction of FG2: does some memory limit make the transaction
// fail after it wrote a register?
func fg2Repro() bool {
	const src = `transaction { prepare(a: auth(Storage) &Account) { a.storage.save(1, to: /storage/x); log("END") } }`
	for _, eng := range host.Engines {
		g := host.NewGauge(false)
		host.New().Tx(src, nil, mapSigners[1:2], host.Options{Engine: eng, Gauge: g})
		for lim := g.MemTotal - 1; lim > 0 && lim+400 > g.MemTotal; lim -= 3 {
			l := host.NewGauge(false)
			l.MemLimit = lim
			r := host.New().Tx(src, nil, mapSigners[1:2], host.Options{Engine: eng, Gauge: l})
			if r.Err != nil && len(r.Writes) > 0 {
				return true
			}
		}
	}
	return false
}

// c24Run is the per-history state of the C24 hooks.
type c24Run struct {
	rec  *evid.Rec
	rng  *rand.Rand
	fam  string
	runs int
}

func (c *c24Run) record(kind string, info execInfo, script bool, r host.Result, eng host.Engine) {
	failed := r.Err != nil || r.Panic != nil
	// non-trivial: a failing run that had already mutated storage/capabilities/contracts in memory, or a script that mutated storage
	nt := info.mutatedFirst && (script || failed)
	c.rec.CaseH(nt, evid.Hash(c.fam, kind, eng, info.src))
	c.runs++
	outcome := "tx-ok"
	switch {
	case script && failed:
		outcome = "script-failed"
	case script:
		outcome = "script-ok"
	case failed:
		outcome = "tx-failed"
	}
	c.rec.Class(kind + "/" + outcome)
	if nt {
		c.rec.Class("nontrivial/" + outcome)
	}
	if failed {
		c.rec.Class("error/" + shortRoot(host.Classify(r)))
	}
	if !failed && !script {
		c.rec.ClassN("writes-after-END", int64(len(r.Writes)))
	}
	lbl := kind + "/" + outcome
	if nt && c.rec.WantSample(lbl) {
		c.rec.Sample(lbl, map[string]any{"engine": eng.String(), "source": info.src, "error": firstLine(errText(r)), "set_value_calls": len(r.Writes)})
	}
}

func shortRoot(ci host.ErrInfo) string {
	r := ci.Root
	if i := strings.LastIndex(r, "."); i >= 0 {
		r = r[i+1:]
	}
	if r == "" {
		r = ci.Class
	}
	return r
}

func firstLine(s string) string {
	for _, l := range strings.Split(s, "\n") {
		if strings.HasPrefix(l, "error:") {
			return l
		}
	}
	if i := strings.Index(s, "\n"); i >= 0 {
		return s[:i]
	}
	return s
}

func runOn(h *host.Host, info execInfo, src string, args [][]byte, signers []common.Address, o host.Options) host.Result {
	if info.script {
		return h.Script(src, args, o)
	}
	return h.Tx(src, args, signers, o)
}

// before runs the probes that need the state *before* the execution, each on a fork:
// metering limits that kill the run at a random depth, and failures before execution starts.
func (c *c24Run) before(info execInfo, h *host.Host, eng host.Engine) string {
	switch c.rng.Intn(10) {
	case 0, 1, 2: // computation / memory limit
		f := h.Fork()
		g := host.NewGauge(false)
		full := runOn(f, info, info.src, nil, mapSigners, host.Options{Engine: eng, Gauge: g, NoAtreeValidation: true})
		if msg := writeDiscipline(info.script, full); msg != "" {
			return "(metered run) " + msg
		}
		kind := "limit-comp"
		lim := host.NewGauge(false)
		frac := []uint64{1, 5, 20, 40, 60, 80, 95, 99}[c.rng.Intn(8)]
		if c.rng.Intn(2) == 0 {
			if g.CompTotal < 2 {
				return ""
			}
			lim.CompLimit = max(1, g.CompTotal*frac/100)
		} else {
			kind = "limit-mem"
			if g.MemTotal < 2 {
				return ""
			}
			lim.MemLimit = max(1, g.MemTotal*frac/100)
		}
		f2 := h.Fork()
		digest := f2.Ledger.Digest()
		r := runOn(f2, info, info.src, nil, mapSigners, host.Options{Engine: eng, Gauge: lim, NoAtreeValidation: true})
		if r.Panic != nil {
			return fmt.Sprintf("(%s=%d) Go panic escaped the runtime: %v", kind, lim.CompLimit+lim.MemLimit, r.Panic)
		}
		if msg := writeDiscipline(info.script, r); msg != "" {
			if c.rec.Known("FG2") && hitsFG2(info.script, r, lim) {
				c.rec.Excluded("FG2")
				return ""
			}
			total := g.CompTotal
			if kind == "limit-mem" {
				total = g.MemTotal
			}
			return fmt.Sprintf("(%s=%d of %d) %s", kind, lim.CompLimit+lim.MemLimit, total, msg)
		}
		if (info.script || r.Err != nil) && f2.Ledger.Digest() != digest {
			return fmt.Sprintf("(%s) ledger changed by a script / failed transaction", kind)
		}
		li := info
		if r.Err != nil && lim.LimitHit() {
			// how far the run got is unknown; count it as non-trivial only when the unlimited run mutates storage
			// and at least a fifth of the budget was consumed before the limit hit
			li.mutatedFirst = info.mutatedFirst && frac >= 20
			c.rec.Class(kind + "/limit-hit")
		}
		c.record(kind, li, info.script, r, eng)
	case 3: // failure before the program runs
		f := h.Fork()
		digest := f.Ledger.Digest()
		kind := []string{"pre-parse", "pre-check", "pre-import", "pre-args", "pre-signers"}[c.rng.Intn(5)]
		src, args, signers := info.src, [][]byte(nil), mapSigners
		switch kind {
		case "pre-parse":
			src += "\n}}"
		case "pre-check":
			src = strings.Replace(src, "log(\"END\")", "log(\"END\")\n    let undeclared: Int = nothing", 1)
			if info.script {
				src = strings.Replace(src, "access(all) fun main() {", "access(all) fun main() {\n    let undeclared: Int = nothing", 1)
			}
		case "pre-import":
			src = "import Missing from 0x1\n" + src
		case "pre-args":
			if info.script {
				src = strings.Replace(src, "fun main()", "fun main(x: Int)", 1)
			} else {
				src = strings.Replace(src, "transaction {", "transaction(x: Int) {", 1)
			}
			args = host.Args(cadence.String("not an Int"))
		case "pre-signers":
			if info.script {
				return ""
			}
			signers = mapSigners[:2]
		}
		r := runOn(f, info, src, args, signers, host.Options{Engine: eng, NoAtreeValidation: true})
		if r.Panic != nil {
			return fmt.Sprintf("(%s) Go panic escaped the runtime: %v", kind, r.Panic)
		}
		if r.Err == nil {
			return fmt.Sprintf("(%s) the broken program was executed successfully:\n%s", kind, src)
		}
		if msg := writeDiscipline(info.script, r); msg != "" {
			return fmt.Sprintf("(%s) %s", kind, msg)
		}
		if f.Ledger.Digest() != digest {
			return fmt.Sprintf("(%s) ledger changed", kind)
		}
		pi := info
		pi.mutatedFirst = false // nothing ran
		pi.src = src
		c.record(kind, pi, info.script, r, eng)
	}
	return ""
}

func (c *c24Run) after(info execInfo, r host.Result, h *host.Host, eng host.Engine) string {
	if msg := writeDiscipline(info.script, r); msg != "" {
		return msg
	}
	kind := "plain"
	if info.expectFail {
		kind = "injected"
	}
	c.record(kind, info, info.script, r, eng)
	return ""
}

func (c *c24Run) hooks() *execHooks { return &execHooks{before: c.before, after: c.after} }

type c24Case struct {
	Family string              `json:"family"`
	Seed   int64               `json:"seed"`
	Nest   storgen.NestHistory `json:"nest"`
	Map    storgen.MapHistory  `json:"map"`
	Cont   storgen.ContHistory `json:"cont"`
}

func runC24Case(rec *evid.Rec, c c24Case) string {
	for _, eng := range host.Engines {
		run := &c24Run{rec: rec, rng: rand.New(rand.NewSource(c.Seed)), fam: c.Family}
		var msg string
		switch c.Family {
		case "map":
			msg, _ = runMapHistory(c.Map, eng, run.hooks())
		case "cont":
			msg, _ = runContHistory(c.Cont, eng, false, run.hooks())
		default:
			msg, _ = runNestHistory(c.Nest, eng, run.hooks())
		}
		if msg != "" {
			return msg
		}
	}
	return ""
}

func TestC24(t *testing.T) {
	rec := evid.Start(t, "C24", "every transaction and script of generated histories (C22 typed-map, C23 nest incl. contract add/update/remove, C20 container generators, with 15% scripts and 35% failure "+
		"injectors: panic / failed assert / overflow / type-mismatching load at a random statement position, failing pre / post condition, panic in execute; each optionally preceded by an extra in-memory "+
		"mutation of storage, capabilities or contracts), plus per execution (30%) a re-run on a fork under a computation or memory limit set to 1–99% of its measured consumption and (10%) a variant broken "+
		"before execution (parse error, check error, missing import, bad argument, wrong signer count). Oracle on the host trace: scripts ⇒ 0 SetValue; failed transactions ⇒ 0 SetValue; successful "+
		"transactions ⇒ every SetValue after the ProgramLog(\"END\") marker that is the last statement of their code (and the later ledger-only verification of C22/C23/C20 passes). One evaluation per "+
		"execution and engine. Non-trivial: a failing run that had already mutated storage/capabilities/contracts in memory before failing, or a script that mutated storage. Distinct by (family, kind, engine, source).")

	if rec.Known("FG1") {
		rec.ReportKnown("FG1", fg1Repro())
	}
	if rec.Known("FG2") {
		rec.ReportKnown("FG2", fg2Repro())
	}
	if f := evid.ReplayFile(); f != "" {
		var c c24Case
		if err := evid.LoadReplay(f, &c); err != nil {
			t.Fatalf("bad replay file: %v", err)
		}
		if msg := runC24Case(rec, c); msg != "" {
			rec.Violation(t, c, "%s", msg)
		}
		return
	}

	rapid.Check(t, func(rt *rapid.T) {
		src := storgen.FromRapid(rt)
		c := c24Case{Seed: int64(src.Intn("probeseed", 1<<30))}
		switch fam := src.Intn("family", 10); {
		case fam < 4:
			c.Family = "nest"
			c.Nest = storgen.GenNestHistory(src, storgen.NestGenConfig{MaxExecs: 12, MaxOps: 4, Injections: true})
			if nestHistoryHitsFG1(c.Nest) && rec.Known("FG1") {
				// FG1's orphan slab makes the later health/verification steps of the runner fail
				rec.Excluded("FG1")
				return
			}
		case fam < 8:
			c.Family = "map"
			c.Map = storgen.GenMapHistory(src, storgen.MapGenConfig{MaxExecs: 12, MaxOps: 5, Injections: true, AvoidNilBorrowAnyResource: true})
		default:
			c.Family = "cont"
			c.Cont = storgen.GenContHistory(src, storgen.ContGenConfig{MaxExecs: 8, MaxOps: 6, Injections: true, SkipBuild: true})
		}
		if msg := runC24Case(rec, c); msg != "" {
			rt.Fatalf("C24 violation: %s\n--- replay case:\n%s", msg, toJSON(c))
		}
		rec.Class("family/" + c.Family)
	})
	rec.Extra("engines", []string{"interpreter", "vm"})
}
