package storage

import (
	"encoding/json"
	"fmt"
	"runtime/debug"
	"strings"

	"github.com/onflow/cadence"

	"verif/lib/host"
)

func init() {
	// the checks allocate many short-lived checkers/interpreters; a lazier GC halves the wall time
	debug.SetGCPercent(400)
}

// unquote strips the quotes log() puts around a String argument.
func unquote(s string) string {
	if len(s) >= 2 && s[0] == '"' && s[len(s)-1] == '"' {
		return s[1 : len(s)-1]
	}
	return s
}

func unquoteAll(ls []string) []string {
	out := make([]string, len(ls))
	for i, l := range ls {
		out[i] = unquote(l)
	}
	return out
}

// stringArray converts a script result of type [String] into Go strings.
func stringArray(v cadence.Value) ([]string, error) {
	arr, ok := v.(cadence.Array)
	if !ok {
		return nil, fmt.Errorf("result is %T, not an array", v)
	}
	out := make([]string, len(arr.Values))
	for i, e := range arr.Values {
		s, ok := e.(cadence.String)
		if !ok {
			return nil, fmt.Errorf("element %d is %T", i, e)
		}
		out[i] = string(s)
	}
	return out, nil
}

func errText(r host.Result) string {
	if r.Panic != nil {
		return fmt.Sprintf("GO PANIC: %v", r.Panic)
	}
	if r.Err == nil {
		return "<nil>"
	}
	var lines []string
	for _, l := range strings.Split(r.Err.Error(), "\n") {
		if len(l) > 200 {
			l = l[:200] + "…"
		}
		if strings.Contains(l, "Was this error unhelpful") || strings.Contains(l, "Consider suggesting an improvement") {
			continue
		}
		lines = append(lines, l)
	}
	s := strings.Join(lines, "\n")
	if len(s) > 2500 {
		s = s[:2500] + "…"
	}
	return s
}

func toJSON(v any) string {
	b, err := json.Marshal(v)
	if err != nil {
		return fmt.Sprintf("%v", v)
	}
	return string(b)
}

// setValues counts the SetValue entries of a trace.
func setValues(r host.Result) int { return len(r.Writes) }

// endMarkerPos returns the trace position of ProgramLog("END") (-1 if absent).
func endMarkerPos(r host.Result) int {
	pos := -1
	for i, c := range r.Trace {
		if c.Kind == "ProgramLog" && unquote(c.Detail) == "END" {
			pos = i
		}
	}
	return pos
}

func indent(s string) string { return "    " + strings.ReplaceAll(s, "\n", "\n    ") }

// execInfo describes one execution of a generated history to the hooks of other properties
// (C23 health, C24 write discipline) that piggyback on the C22/C23/C20 runners.
type execInfo struct {
	idx          int
	src          string
	script       bool
	expectFail   bool // the model says the execution fails
	commits      bool // successful transaction
	mutatedFirst bool // the execution changes storage/capabilities/contracts in memory (before failing, if it fails)
}

type execHooks struct {
	before func(info execInfo, h *host.Host, eng host.Engine) string
	after  func(info execInfo, r host.Result, h *host.Host, eng host.Engine) string
}
