package storage

import (
	"encoding/json"
	"fmt"
	"runtime/debug"
	"strings"

	"github.com/onflow/cadence"

	"verif/lib/host"
)

func init() {
	// the checks allocate many short-lived checkers/interpreters; a lazier GC halves the wall time
	debug.SetGCPercent(400)
}

// unquote strips the quotes log() puts around a String argument.
func unquote(s string) string {
	if len(s) >= 2 && s[0] == '"' && s[len(s)-1] == '"' {
		return s[1 : len(s)-1]
	}
	return s
}

func unquoteAll(ls []string) []string {
	out := make([]string, len(ls))
	for i, l := range ls {
		out[i] = unquote(l)
	}
	return out
}

// stringArray converts a script result of type [String] into Go strings.
func stringArray(v cadence.Value) ([]string, error) {
	arr, ok := v.(cadence.Array)
	if !ok {
		return nil, fmt.Errorf("result is %T, not an array", v)
	}
	out := make([]string, len(arr.Values))
	for i, e := range arr.Values {
		s, ok := e.(cadence.String)
		if !ok {
			return nil, fmt.Errorf("element %d is %T", i, e)
		}
		out[i] = string(s)
	}
	return out, nil
}

func errText(r host.Result) string {
	if r.Panic != nil {
		return fmt.Sprintf("GO PANIC: %v", r.Panic)
	}
	if r.Err == nil {
		return "<nil>"
	}
	s := r.Err.Error()
	if len(s) > 600 {
		s = s[:600] + "…"
	}
	return s
}

func toJSON(v any) string {
	b, err := json.Marshal(v)
	if err != nil {
		return fmt.Sprintf("%v", v)
	}
	return string(b)
}

// setValues counts the SetValue entries of a trace.
func setValues(r host.Result) int { return len(r.Writes) }

// endMarkerPos returns the trace position of ProgramLog("END") (-1 if absent).
func endMarkerPos(r host.Result) int {
	pos := -1
	for i, c := range r.Trace {
		if c.Kind == "ProgramLog" && unquote(c.Detail) == "END" {
			pos = i
		}
	}
	return pos
}

func indent(s string) string { return "    " + strings.ReplaceAll(s, "\n", "\n    ") }
