package storage

import (
	"fmt"
	"testing"

	"verif/lib/host"
	"verif/lib/prog"
)

const probeContract = `
access(all) contract C {
  access(all) struct interface I { access(all) view fun tag(): String }
  access(all) resource interface RI { access(all) view fun tag(): String }
  access(all) struct S: I { access(all) let x: Int; init(_ x: Int) { self.x = x }
     access(all) view fun tag(): String { return "S:".concat(self.x.toString()) } }
  access(all) struct S2 { access(all) let y: String; init(_ y: String) { self.y = y } }
  access(all) resource R: RI { access(all) let id: Int; init(_ id: Int) { self.id = id }
     access(all) view fun tag(): String { return "R:".concat(self.id.toString()) } }
  access(all) resource R2 { access(all) let id: Int; init(_ id: Int) { self.id = id } }
  access(all) fun mkR(_ id: Int): @R { return <- create R(id) }
  access(all) fun mkR2(_ id: Int): @R2 { return <- create R2(id) }
  access(all) view fun show(_ v: AnyStruct): String {
    if let i = v as? Int { return "Int:".concat(i.toString()) }
    if let s = v as? String { return "String:".concat(s) }
    if let a = v as? [Int] { var r = "[Int]:"; for e in a { r = r.concat(e.toString()).concat(",") }; return r }
    if let s = v as? S { return "S:".concat(s.x.toString()) }
    if let s = v as? S2 { return "S2:".concat(s.y) }
    return "?"
  }
  access(all) view fun showR(_ v: &AnyResource): String {
    if let r = v as? &R { return "R:".concat(r.id.toString()) }
    if let r = v as? &R2 { return "R2:".concat(r.id.toString()) }
    return "?"
  }
  access(all) view fun showRef(_ v: &AnyStruct): String {
    if let i = v as? &Int { return "Int:".concat(i.toString()) }
    if let s = v as? &String { return "String:".concat(*s) }
    if let a = v as? &[Int] { var r = "[Int]:"; for e in a { r = r.concat(e.toString()).concat(",") }; return r }
    if let s = v as? &S { return "S:".concat(s.x.toString()) }
    if let s = v as? &S2 { return "S2:".concat(s.y) }
    return "?"
  }
}`

func TestProbe(t *testing.T) {
	hist := prog.History{Steps: []prog.Step{
		{Kind: prog.Deploy, Name: "C", Signers: []uint64{1}, Source: probeContract},
		{Kind: prog.Tx, Signers: []uint64{1, 2, 3}, Source: `import C from 0x1
transaction { prepare(a0: auth(Storage) &Account, a1: auth(Storage) &Account, a2: auth(Storage) &Account) {
  a0.storage.save(5, to: /storage/p0)
  a0.storage.save("hi", to: /storage/p1)
  a1.storage.save([1,2,3], to: /storage/p0)
  a1.storage.save(C.S(7), to: /storage/p1)
  a2.storage.save(<- C.mkR(9), to: /storage/p2)
  a2.storage.save(<- C.mkR2(10), to: /storage/p3)
  a2.storage.save(C.S2("yy"), to: /storage/p1)
  log(C.show(a0.storage.copy<AnyStruct>(from: /storage/p0)!))
  log(C.show(a1.storage.copy<{C.I}>(from: /storage/p1)!))
  log(a1.storage.copy<{C.I}>(from: /storage/p1)!.tag())
  log(a1.storage.borrow<&AnyStruct>(from: /storage/p0)!.getType().identifier)
  log(a1.storage.borrow<&{C.I}>(from: /storage/p1)!.tag())
  log(a1.storage.borrow<&[Int]>(from: /storage/p0)!.length)
  log(a1.storage.borrow<&C.S>(from: /storage/p1)!.x)
  log(*a0.storage.borrow<&Int>(from: /storage/p0)!)
  log(*a0.storage.borrow<&String>(from: /storage/p1)!)
 log(*a1.storage.borrow<&[Int]>(from: /storage/p0)!)
  log(a2.storage.borrow<&AnyResource>(from: /storage/p2)!.getType().identifier)
  log(a2.storage.borrow<&{C.RI}>(from: /storage/p2)!.tag())
  log(a2.storage.type(at: /storage/p2)!.identifier)
  log(a1.storage.type(at: /storage/p0)!.identifier)
  log(a1.storage.type(at: /storage/p3)?.identifier)
  log(a2.storage.storagePaths)
  log(a2.storage.check<@AnyResource>(from: /storage/p2))
  log(a2.storage.check<AnyStruct>(from: /storage/p2))
  a2.storage.forEachStored(fun (p: StoragePath, t: Type): Bool { log(p.toString().concat("=").concat(t.identifier)); return true })
  if let r <- a2.storage.load<@AnyResource>(from: /storage/p2) { log(C.showR(&r as &AnyResource)); destroy r } else { log("nil") }
  if let r <- a2.storage.load<@{C.RI}>(from: /storage/p2) { log(C.showR(&r as &AnyResource)); destroy r } else { log("nil") }
  log("END")
} }`},
		{Kind: prog.Script, Source: `import C from 0x1
access(all) fun main(): Int { 
let a2 = getAuthAccount<auth(Storage) &Account>(0x3)
log(a2.storage.storagePaths)
a2.storage.save(1, to: /storage/zz)
log(a2.storage.storagePaths)
return 1 }`},
		{Kind: prog.Tx, Signers: []uint64{1, 2, 3}, Source: `import C from 0x1
transaction { prepare(a0: auth(Storage) &Account, a1: auth(Storage) &Account, a2: auth(Storage) &Account) {
  log(a2.storage.storagePaths)
  log(a0.storage.load<String>(from: /storage/p0))
} }`},
		{Kind: prog.Tx, Signers: []uint64{1, 2, 3}, Source: `import C from 0x1
transaction { prepare(a0: auth(Storage) &Account, a1: auth(Storage) &Account, a2: auth(Storage) &Account) {
  log(a0.storage.borrow<&String>(from: /storage/p0))
} }`},
		{Kind: prog.Tx, Signers: []uint64{1, 2, 3}, Source: `import C from 0x1
transaction { prepare(a0: auth(Storage) &Account, a1: auth(Storage) &Account, a2: auth(Storage) &Account) {
  a0.storage.save(1, to: /storage/p0)
} }`},
	}}
	for _, e := range host.Engines {
		rs, h := prog.Run(nil, hist, host.Options{Engine: e})
		for i, r := range rs {
			ci := host.Classify(r)
			fmt.Println(e, i, ci.Class, ci.Root, host.ExportJSON(r.Value), len(r.Writes), r.Err)
			for _, l := range r.Logs {
				fmt.Println("    ", l)
			}
		}
		fmt.Println(len(h.Ledger.SortedKeys()), h.Ledger.Digest()[:12])
		for _, k := range h.Ledger.SortedKeys() {
			o, kk := host.SplitRegKey(k)
			fmt.Printf("  %x %q %d\n", o, kk, len(h.Ledger.Values[k]))
		}
	}
}
