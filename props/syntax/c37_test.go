package syntax

import (
	"bytes"
	"fmt"
	"math/rand"
	"os"
	"path/filepath"
	"runtime/debug"
	"strings"
	"sync"
	"sync/atomic"
	"testing"
	"time"
	"unicode/utf8"

	"github.com/onflow/cadence/ast"
	"github.com/onflow/cadence/common"
	cerrors "github.com/onflow/cadence/errors"
	"github.com/onflow/cadence/parser"
	"github.com/onflow/cadence/parser/lexer"
	"github.com/onflow/cadence/sema"

	"verif/lib/evid"
	"verif/lib/srcgen"
)

// C37: lexing, parsing and checking are total, report in-range positions, the token stream covers the
// input contiguously with line/column matching the byte offsets, independent of earlier inputs.

const maxTokens = 1<<19 + 16

type lexResult struct {
	Toks   []lexer.Token
	Err    error
	Panic  any
	Stream lexer.TokenStream // set when the stream was not reclaimed
}

// lexAll lexes the input and drains the stream up to and including the EOF token.
func lexAll(input []byte, reclaim bool) (res lexResult) {
	defer func() {
		if r := recover(); r != nil {
			res.Panic = r
		}
	}()
	ts, err := lexer.Lex(input, nil)
	res.Err = err
	if ts == nil {
		return
	}
	for len(res.Toks) < maxTokens {
		tok := ts.Next()
		res.Toks = append(res.Toks, tok)
		if tok.Type == lexer.TokenEOF {
			break
		}
	}
	if reclaim {
		ts.Reclaim()
	} else {
		res.Stream = ts
	}
	return
}

func sameToken(a, b lexer.Token) bool {
	if a.Type != b.Type || a.Range != b.Range {
		return false
	}
	if a.SpaceOrError == nil && b.SpaceOrError == nil {
		return true
	}
	return fmt.Sprint(a.SpaceOrError) == fmt.Sprint(b.SpaceOrError)
}

func tokKey(t lexer.Token) string {
	return fmt.Sprintf("%d|%d:%d:%d|%d:%d:%d|%v", t.Type, t.StartPos.Offset, t.StartPos.Line, t.StartPos.Column,
		t.EndPos.Offset, t.EndPos.Line, t.EndPos.Column, t.SpaceOrError)
}

func isBlockCommentToken(t lexer.TokenType) bool {
	return t == lexer.TokenBlockCommentStart || t == lexer.TokenBlockCommentContent || t == lexer.TokenBlockCommentEnd
}

// checkTokens applies the token-stream clauses of the statement; "" means they hold.
// unterminatedComment is set when the only deviation is finding FS2 (see below).
//
// allowDrift models finding FS2 (only passed as true while FS2 is listed as known): after an *empty* string token
// (the empty segment between `)` and the next `\(` or the closing quote of a template) the lexer advances
// the column although no code point was consumed, so every later position on that line is reported one
// column too far per empty token. With allowDrift the reported column may be recomputed+drift where drift is
// exactly that count; usedDrift tells the caller that the allowance was needed.
func checkTokens(input []byte, res lexResult, pt posTable, allowDrift bool) (msg string, finding string, usedDrift bool) {
	msg, fs3, usedDrift := checkTokens1(input, res, pt, allowDrift)
	if fs3 {
		finding = "FS3"
	}
	if msg != "" && strings.Contains(msg, "(integer with unknown base) has range") {
		// FS47: `0` followed by a letter: numberState consumes one more rune unconditionally after the "base" letter; at the end of
		// the input the token then ends one byte behind the input
		n := len(input)
		if n >= 2 && input[n-2] == '0' && (input[n-1] >= 'a' && input[n-1] <= 'z' || input[n-1] >= 'A' && input[n-1] <= 'Z') {
			finding = "FS47"
		}
	}
	if msg != "" && !fs3 && strings.HasPrefix(msg, "tokens cover only") {
		// FS6: inside a template expression a backslash that is not followed by `(` is skipped silently
		// (with the following code point); at the end of the input it is covered by no token.
		covered := 0
		sawTemplate := false
		for _, t := range res.Toks {
			if t.Type == lexer.TokenStringTemplate {
				sawTemplate = true
			}
			if t.Type != lexer.TokenEOF && t.Type != lexer.TokenError {
				covered = t.EndPos.Offset + 1
			}
		}
		rest := input[covered:]
		if sawTemplate && len(rest) >= 1 && rest[0] == '\\' && !bytes.HasPrefix(rest, []byte("\\(")) && utf8.RuneCount(rest) <= 2 {
			finding = "FS6"
		}
	}
	return
}

func checkTokens1(input []byte, res lexResult, pt posTable, allowDrift bool) (msg string, fs2 bool, usedDrift bool) {
	n := len(input)
	drift := 0
	check := func(p ast.Position, d int) string {
		if d > 0 && p.Offset >= 0 && p.Offset < len(pt.line) && int32(p.Line) == pt.line[p.Offset] && int32(p.Column) == pt.col[p.Offset]+int32(d) {
			usedDrift = true
			return ""
		}
		return pt.check(p)
	}
	if res.Panic != nil {
		return fmt.Sprintf("lexer panicked: %v", res.Panic), false, false
	}
	if res.Err != nil {
		// the only legitimate failure of Lex is the documented token limit (a user error)
		if _, ok := res.Err.(lexer.TokenLimitReachedError); ok {
			return "", false, usedDrift
		}
		if cerrors.IsInternalError(res.Err) {
			return fmt.Sprintf("lexer returned an internal error: %v", res.Err), false, usedDrift
		}
		return fmt.Sprintf("lexer failed (recovered panic inside Lex): %v", res.Err), false, usedDrift
	}
	toks := res.Toks
	if len(toks) == 0 || toks[len(toks)-1].Type != lexer.TokenEOF {
		return "token stream does not end with EOF", false, usedDrift
	}
	covered := 0 // first byte not yet covered by a non-error token
	sawError := false
	nesting := 0
	for i, t := range toks[:len(toks)-1] {
		if t.Type == lexer.TokenEOF {
			return fmt.Sprintf("token %d: EOF token before the end of the stream", i), false, usedDrift
		}
		if t.Type == lexer.TokenError {
			sawError = true
			if t.StartPos.Offset < 0 || t.EndPos.Offset >= n || t.StartPos.Offset > t.EndPos.Offset {
				return fmt.Sprintf("error token %d has range [%d,%d] outside the input of %d bytes", i, t.StartPos.Offset, t.EndPos.Offset, n), false, usedDrift
			}
			if t.StartPos.Offset < covered {
				return fmt.Sprintf("error token %d starts at %d, inside the already covered prefix [0,%d)", i, t.StartPos.Offset, covered), false, usedDrift
			}
			if _, ok := t.SpaceOrError.(error); !ok {
				return fmt.Sprintf("error token %d carries no error", i), false, usedDrift
			}
			if m := check(t.StartPos, drift); m != "" {
				return fmt.Sprintf("error token %d start: %s", i, m), false, usedDrift
			}
			continue
		}
		// contiguity
		if t.StartPos.Offset != covered {
			return fmt.Sprintf("token %d (%s) starts at offset %d, expected %d (tokens must be contiguous)", i, t.Type, t.StartPos.Offset, covered), false, usedDrift
		}
		if t.EndPos.Offset < t.StartPos.Offset-1 || t.EndPos.Offset >= n {
			return fmt.Sprintf("token %d (%s) has range [%d,%d] in an input of %d bytes", i, t.Type, t.StartPos.Offset, t.EndPos.Offset, n), false, usedDrift
		}
		if m := check(t.StartPos, drift); m != "" {
			return fmt.Sprintf("token %d (%s) start: %s", i, t.Type, m), false, usedDrift
		}
		if t.EndPos.Offset >= t.StartPos.Offset {
			// an empty token (end = start-1, produced for an empty string segment after a template) has no last byte
			endDrift := drift
			lastStart := t.EndPos.Offset
			for lastStart > t.StartPos.Offset && !utf8.RuneStart(input[lastStart]) && validAround(input, lastStart) {
				lastStart--
			}
			if bytes.IndexByte(input[t.StartPos.Offset:lastStart], '\n') >= 0 {
				endDrift = 0
			}
			if m := check(t.EndPos, endDrift); m != "" {
				return fmt.Sprintf("token %d (%s) end: %s", i, t.Type, m), false, usedDrift
			}
		}
		// a token must consist of whole code points
		if t.StartPos.Offset > 0 && t.StartPos.Offset < n && validAround(input, t.StartPos.Offset) {
			return fmt.Sprintf("token %d (%s) starts inside a code point at offset %d", i, t.Type, t.StartPos.Offset), false, usedDrift
		}
		covered = t.EndPos.Offset + 1
		if t.EndPos.Offset < t.StartPos.Offset {
			if allowDrift {
				drift++
			}
		} else if bytes.IndexByte(input[t.StartPos.Offset:t.EndPos.Offset+1], '\n') >= 0 {
			drift = 0
		}
		switch t.Type {
		case lexer.TokenBlockCommentStart:
			nesting++
		case lexer.TokenBlockCommentEnd:
			nesting--
		}
	}
	eof := toks[len(toks)-1]
	if !sawError {
		if covered != n {
			if nesting > 0 && (len(toks) >= 2 && isBlockCommentToken(toks[len(toks)-2].Type)) {
				// FS2: the content of an unterminated block comment is covered by no token
				return fmt.Sprintf("tokens cover only [0,%d) of %d bytes: the rest of an unterminated block comment is covered by no token and there is no error token", covered, n), true, usedDrift
			}
			return fmt.Sprintf("tokens cover only [0,%d) of %d bytes and there is no error token", covered, n), false, usedDrift
		}
		if eof.StartPos.Offset != n || eof.EndPos.Offset != n {
			return fmt.Sprintf("EOF token at [%d,%d], expected %d", eof.StartPos.Offset, eof.EndPos.Offset, n), false, usedDrift
		}
		if m := check(eof.StartPos, drift); m != "" {
			return "EOF token: " + m, false, usedDrift
		}
	}
	return "", false, usedDrift
}

// validAround reports whether offset lies strictly inside a *valid* multi-byte code point.
func validAround(input []byte, off int) bool {
	for s := off - 1; s >= 0 && s >= off-3; s-- {
		if utf8.RuneStart(input[s]) {
			r, w := utf8.DecodeRune(input[s:])
			return r != utf8.RuneError && s+w > off
		}
	}
	return false
}

// checkPositioned checks that the positions of an error lie inside the input: offsets in [0,n],
// lines in [1,lines], and the end not before the start (an inverted range points at nothing).
// unset is true when the problem is a position that was never set (the zero Position: offset 0, line 0,
// column 0 — lines are 1-based, so this is not a position of any input): finding FS5.
func checkPositioned(err error, n int, lines int) (msg string, unset bool) {
	hp, ok := err.(ast.HasPosition)
	if !ok {
		return "", false
	}
	s := hp.StartPosition()
	e := hp.EndPosition(nil)
	if s == ast.EmptyPosition {
		return fmt.Sprintf("%T has an unset start position (offset 0, line 0)", err), true
	}
	if s.Offset < 0 || s.Offset > n || s.Line < 1 || s.Line > lines {
		return fmt.Sprintf("%T start position (offset %d, line %d) outside the input (%d bytes, %d lines)", err, s.Offset, s.Line, n, lines), false
	}
	if e == ast.EmptyPosition {
		return fmt.Sprintf("%T has an unset end position (offset 0, line 0) while it starts at offset %d", err, s.Offset), true
	}
	if e.Offset < 0 || e.Offset > n || e.Line < 1 || e.Line > lines {
		return fmt.Sprintf("%T end position (offset %d, line %d) outside the input (%d bytes, %d lines)", err, e.Offset, e.Line, n, lines), false
	}
	if e.Offset < s.Offset-1 {
		return fmt.Sprintf("%T end offset %d before start offset %d", err, e.Offset, s.Offset), false
	}
	return "", false
}

var (
	stubOnce sync.Once
	stubElab *sema.Elaboration
)

const stubSource = `
access(all) contract FungibleToken {
    access(all) entitlement Withdraw
    access(all) resource interface Provider { access(Withdraw) fun withdraw(amount: UFix64): @Vault }
    access(all) resource Vault: Provider {
        access(all) var balance: UFix64
        init(balance: UFix64) { self.balance = balance }
        access(Withdraw) fun withdraw(amount: UFix64): @Vault { self.balance = self.balance - amount; return <- create Vault(balance: amount) }
    }
    access(all) struct S { access(all) let id: Int; init() { self.id = 1 } }
    access(all) fun f(): Int { return 1 }
}
access(all) struct A {}
access(all) resource B {}
access(all) struct interface C {}
access(all) entitlement E
access(all) fun alpha(): Int { return 1 }
access(all) let Zeta: Int = 1
`

func stubElaboration() *sema.Elaboration {
	stubOnce.Do(func() {
		p, err := parser.ParseProgram(nil, []byte(stubSource), parser.Config{})
		if err != nil {
			panic(err)
		}
		ch, err := sema.NewChecker(p, common.StringLocation("stub"), nil, &sema.Config{AccessCheckMode: sema.AccessCheckModeNotSpecifiedUnrestricted})
		if err != nil {
			panic(err)
		}
		if err := ch.Check(); err != nil {
			panic(err)
		}
		stubElab = ch.Elaboration
	})
	return stubElab
}

type checkOutcome struct {
	Err   error
	Panic any
	Stack string
}

func checkGuarded(p *ast.Program) (out checkOutcome) {
	defer func() {
		if r := recover(); r != nil {
			out.Panic = r
			out.Stack = string(debug.Stack())
		}
	}()
	elab := stubElaboration()
	checker, err := sema.NewChecker(p, common.StringLocation("verif"), nil, &sema.Config{
		AccessCheckMode: sema.AccessCheckModeNotSpecifiedUnrestricted,
		ImportHandler: func(_ *sema.Checker, loc common.Location, _ ast.Range) (sema.Import, error) {
			// stub resolver: a fixed pre-checked program for most locations, failure for some
			if evid.Hash(loc.ID())%4 == 0 {
				return nil, fmt.Errorf("stub import resolver: cannot resolve %s", loc.ID())
			}
			return sema.ElaborationImport{Elaboration: elab}, nil
		},
	})
	if err != nil {
		out.Err = err
		return
	}
	out.Err = checker.Check()
	return
}

// c37State carries the watchdog cell and counters.
type c37State struct {
	rec      *evid.Rec
	t        *testing.T
	current  atomic.Pointer[Case]
	started  atomic.Int64
	knownFS1 bool
	knownFS2 bool
	replay   bool
	knownFS4 bool
	knownFS5 bool
	// FS42: the fix of FS4 (d5226c2) only guards InclusiveRangeType.Resolve; the nil member type of an InclusiveRange written with a
	// wrong number of type arguments still crashes other visitors (IsImportable for transaction parameters, …). Same predicate.
	knownFS42 bool
	unsetExamples map[string]string // one example input per error type that carried an unset position (FS5)
}

// quiet evaluates a case without touching the evidence counters (used while shrinking).
func (st *c37State) quiet(c Case, class string) string {
	saved := st.rec
	st.rec = evid.Start(discardTB{st.t}, "C37", "")
	st.rec.Known("") // load the findings list
	defer func() { st.rec = saved }()
	return st.one(c, class)
}

type discardTB struct{ testing.TB }

func (discardTB) Cleanup(func()) {}

// one evaluates one case: prev is lexed first (pooled state), then input. Returns violation text or "".
func (st *c37State) one(c Case, class string) string {
	input, prev := c.bytes()
	st.current.Store(&c)
	st.started.Store(time.Now().UnixNano())
	defer st.started.Store(0)
	rec := st.rec
	n := len(input)

	// --- lexer, after a different earlier input (pooled state)
	if prev != nil {
		_ = lexAll(prev, true)
	}
	first := lexAll(input, true)
	pt := newPosTable(input)
	lines := int(pt.line[n])
	msg, finding, usedDrift := checkTokens(input, first, pt, st.knownFS2)
	overrun := msg != "" && finding == "FS47" && st.rec.Known("FS47") && !st.replay // the last token ends behind the input
	if msg != "" {
		if finding != "" && st.rec.Known(finding) && !st.replay {
			rec.Excluded(finding)
		} else {
			return "lexer: " + msg
		}
	}
	if usedDrift {
		rec.Excluded("FS2")
	}
	// the same input again after a neutral input: identical tokens
	_ = lexAll([]byte("x"), true)
	second := lexAll(input, false) // this one is reclaimed only after the parser has run (two live lexers)
	defer func() {
		if second.Stream != nil {
			second.Stream.Reclaim()
		}
	}()
	if first.Panic == nil && second.Panic == nil && first.Err == nil && second.Err == nil {
		if len(first.Toks) != len(second.Toks) {
			return fmt.Sprintf("lexer: %d tokens when lexed after another input, %d tokens when lexed again", len(first.Toks), len(second.Toks))
		}
		for i := range first.Toks {
			if !sameToken(first.Toks[i], second.Toks[i]) {
				return fmt.Sprintf("lexer: token %d differs depending on what was lexed before: %s vs %s", i, tokKey(first.Toks[i]), tokKey(second.Toks[i]))
			}
		}
	}

	// --- parser
	pr := parseGuarded(input)
	if pr.Panic != nil {
		return fmt.Sprintf("parser panicked: %v", pr.Panic)
	}
	nontrivial := false
	ntoks := len(first.Toks)
	if ntoks >= 4 { // ≥ 3 tokens + EOF
		nontrivial = class != "valid" && class != "harvest" || hasInteresting(input)
	}
	outcome := "parse-ok"
	if pr.Err != nil {
		outcome = "parse-error"
		pe, ok := pr.Err.(parser.Error)
		if !ok {
			if _, limit := pr.Err.(lexer.TokenLimitReachedError); limit {
				outcome = "token-limit"
			} else if cerrors.IsInternalError(pr.Err) {
				return fmt.Sprintf("parser returned an internal error: %.300s", pr.Err.Error())
			} else {
				return fmt.Sprintf("parser returned an error that is not a parser.Error: %T %.300s", pr.Err, pr.Err.Error())
			}
		}
		for _, child := range pe.Errors {
			if cerrors.IsInternalError(child) {
				text := safeErrorText(child)
				if strings.Contains(text, "ast.NewStringTemplateExpression") && hasNestedTemplateString(input) && st.knownFS1 {
					rec.Excluded("FS1")
					outcome = "parse-error-FS1"
					continue
				}
				if strings.Contains(text, "slice bounds out of range") && strings.Contains(text, "parser.parseAuthorization(") && rec.Known("FS8") && !st.replay {
					// FS8: `auth(` at the end of the input: parseAuthorization takes the source text of the EOF token
					rec.Excluded("FS8")
					outcome = "parse-error-FS8"
					continue
				}
				if overrun && strings.Contains(text, "slice bounds out of range") {
					// consequence of FS47: the parser takes the source text of the token that ends behind the input
					rec.Excluded("FS47")
					outcome = "parse-error-FS47"
					continue
				}
				if strings.Contains(text, "parser did not make progress") && strings.Contains(text, "parser.parseSwitchCases(") && rec.Known("FS48") && !st.replay {
					// FS48: switch cases followed by an unterminated string template: parseSwitchCases stops consuming tokens
					rec.Excluded("FS48")
					outcome = "parse-error-FS48"
					continue
				}
				return fmt.Sprintf("parser reported an internal error: %.1800s", text)
			}
			if m, unset := checkPositioned(child, n, lines); m != "" {
				if overrun && strings.Contains(m, "outside the input") {
					continue // consequence of FS47: positions derived from the overrunning token
				}
				if unset && st.knownFS5 {
					rec.Excluded("FS5")
					rec.Class(fmt.Sprintf("unset-position/%T", child))
					continue
				}
				return "parser error position: " + m + " (" + firstLine(safeErrorText(child)) + ")"
			}
		}
		// rendering the error (what every caller does) must not crash either
		if n < 4000 {
			if p := panicOf(func() { _ = pr.Err.Error() }); p != nil {
				return fmt.Sprintf("rendering the parser error panicked: %v", p)
			}
		}
	}
	rec.Class(class + "/" + outcome)

	// --- checker (only on programs the parser accepted, as real callers do)
	if pr.Err == nil && pr.Program != nil {
		co := checkGuarded(pr.Program)
		if co.Panic != nil {
			// FS4: InclusiveRange instantiated with a wrong number of type arguments keeps a nil member type
			if (st.knownFS4 || st.knownFS42) && strings.Contains(fmt.Sprint(co.Panic), "nil pointer dereference") && bytes.Contains(input, []byte("InclusiveRange")) &&
				(strings.Contains(co.Stack, "sema.(*InclusiveRangeType).") || hasBadInclusiveRange(input)) {
				if st.knownFS4 {
					rec.Excluded("FS4")
				} else {
					rec.Excluded("FS42")
				}
				rec.Class("check-panic-FS4")
				co = checkOutcome{}
			} else if rec.Known("FS49") && !st.replay && strings.Contains(co.Stack, "sema.(*Checker).maybeAddResourceInvalidation") {
				// FS49: a non-resource value (e.g. the type constructor `Address`) assigned to a variable annotated with a resource
				// type without `@`: recordResourceInvalidation runs without a resource variable
				rec.Excluded("FS49")
				rec.Class("check-panic-FS49")
				co = checkOutcome{}
			} else if rec.Known("FS43") && !st.replay && strings.Contains(co.Stack, "sema.(*Checker).checkDefaultDestroyEvent") && bytes.Count(input, []byte("ResourceDestroyed")) >= 2 {
				// FS43: a resource that declares ResourceDestroyed twice with different parameter counts
				rec.Excluded("FS43")
				rec.Class("check-panic-FS43")
				co = checkOutcome{}
			} else if rec.Known("FS7") && !st.replay && strings.Contains(co.Stack, "sema.(*Checker).checkDefaultDestroyEvent") && bytes.Contains(input, []byte("ResourceDestroyed")) {
				// FS7: a resource interface declaring ResourceDestroyed(with parameters) next to any other nested composite
				rec.Excluded("FS7")
				rec.Class("check-panic-FS7")
				co = checkOutcome{}
			} else {
				return fmt.Sprintf("checker panicked: %v\n%s", co.Panic, trimStack(co.Stack))
			}
		}
		switch e := co.Err.(type) {
		case nil:
			rec.Class("check-ok")
		case *sema.CheckerError:
			rec.Class("check-error")
			for _, child := range e.Errors {
				if cerrors.IsInternalError(child) {
					return fmt.Sprintf("checker reported an internal error: %.600s", safeErrorText(child))
				}
				if m, unset := checkPositioned(child, n, lines); m != "" {
					if unset && st.knownFS5 {
						rec.Excluded("FS5")
						rec.Class(fmt.Sprintf("unset-position/%T", child))
						if key := fmt.Sprintf("%T", child); n < 300 && st.unsetExamples != nil && st.unsetExamples[key] == "" {
							st.unsetExamples[key] = string(input) + "  ⇒  " + firstLine(safeErrorText(child))
						}
						continue
					}
					return "checker error position: " + m + " (" + firstLine(safeErrorText(child)) + ")"
				}
			}
		default:
			if cerrors.IsInternalError(co.Err) {
				return fmt.Sprintf("checker returned an internal error: %.600s", safeErrorText(co.Err))
			}
			rec.Class("check-other-error")
		}
	}
	rec.CaseH(nontrivial, evid.Hash(string(input)))
	if nontrivial && rec.WantSample(class+"/"+outcome) {
		s := c
		if len(s.Input) > 300 {
			s.Input = s.Input[:300] + "…"
			s.InputB64 = ""
			s.PrevB64 = ""
		}
		rec.Sample(class+"/"+outcome, s)
	}
	return ""
}

func hasInteresting(input []byte) bool {
	multibyte := false
	for _, b := range input {
		if b >= 0x80 {
			multibyte = true
			break
		}
	}
	s := string(input)
	return multibyte || strings.Contains(s, "\\(") || strings.Contains(s, "/*")
}

func safeErrorText(err error) (s string) {
	defer func() {
		if r := recover(); r != nil {
			s = fmt.Sprintf("<Error() panicked: %v>", r)
		}
	}()
	return err.Error()
}

func firstLine(s string) string {
	if i := strings.IndexByte(s, '\n'); i >= 0 {
		s = s[:i]
	}
	if len(s) > 160 {
		s = s[:160]
	}
	return s
}

// hasBadInclusiveRange reports whether the source mentions InclusiveRange with a number of type
// arguments other than one (predicate of finding FS4: such a type keeps a nil member type).
func hasBadInclusiveRange(src []byte) bool {
	for _, c := range srcgen.ScanComments(src) {
		src = bytes.Replace(src, []byte(c), []byte(" "), 1)
	}
	key := []byte("InclusiveRange")
	for off := 0; ; {
		k := bytes.Index(src[off:], key)
		if k < 0 {
			return false
		}
		i := off + k + len(key)
		off = i
		for i < len(src) && (src[i] == ' ' || src[i] == '\n' || src[i] == '\t' || src[i] == '\r') {
			i++
		}
		if i >= len(src) || src[i] != '<' {
			return true
		}
		depth, commas, content := 0, 0, 0
	scan:
		for ; i < len(src); i++ {
			switch src[i] {
			case '<', '(', '[', '{':
				depth++
			case '>', ')', ']', '}':
				depth--
				if depth == 0 {
					break scan
				}
			case ',':
				if depth == 1 {
					commas++
				}
			case ' ', '\n', '\t', '\r':
			default:
				content++
			}
		}
		if commas > 0 || content <= 1 {
			return true
		}
	}
}

// trimStack keeps the frames of the code under test.
func trimStack(s string) string {
	var out []string
	for _, l := range strings.Split(s, "\n") {
		if strings.Contains(l, "github.com/onflow/cadence/") && !strings.HasPrefix(l, "\t") {
			out = append(out, strings.TrimSpace(l))
			if len(out) >= 6 {
				break
			}
		}
	}
	return strings.Join(out, " <- ")
}

func panicOf(f func()) (p any) {
	defer func() { p = recover() }()
	f()
	return nil
}

// dirty predecessors leave the pooled lexer in every unusual state
var dirtyPrev = []string{
	"", "x", "\"abc\\(x", "\"\\(((", "\"a\\(b)c\\(", "/* open", "/* /* nested */", "a § b", "1.", "\"unterminated", "\"esc\\",
	"\"\\(\"\\(", "é", "\xff", "let x = \"\\(y + \"in\\(z)ner\")\"", ")", "\\(", "\"\\(a \\x)\"",
}

func TestC37(t *testing.T) {
	rec := evid.Start(t, "C37", "inputs: grammar-generated programs (plain and randomly laid out with comments), token-mutated and byte-mutated variants "+
		"(insert/delete/duplicate/swap, truncation, invalid UTF-8, bracket imbalance, comment/template openers), nesting/size stress around the depth limits, "+
		"random bytes over the Cadence alphabet, and snippets harvested from the repository's tests (plain and mutated); each input is lexed after a different "+
		"earlier input (incl. ones ending inside a template/comment/error) and again after a neutral one, then parsed, and checked when it parses. "+
		"Oracle: no panic, no internal error, error positions inside the input, tokens contiguous from 0 to EOF, line/column recomputed from the bytes, "+
		"token stream independent of earlier inputs. Non-trivial: ≥ 3 tokens and (mutated/stress/raw input, or contains a multi-byte code point, a string template or a block comment). Distinct by input bytes.")
	st := &c37State{rec: rec, t: t, unsetExamples: map[string]string{}}
	defer func() { rec.Extra("unset_position_examples", st.unsetExamples) }()
	st.knownFS1 = rec.Known("FS1")
	st.knownFS2 = rec.Known("FS2")
	st.knownFS4 = rec.Known("FS4")
	st.knownFS5 = rec.Known("FS5")
	st.knownFS42 = rec.Known("FS42")

	// watchdog: a case that does not finish is a termination violation (generous bound, ≥ 1000× the typical case)
	done := make(chan struct{})
	defer close(done)
	go func() {
		tick := time.NewTicker(2 * time.Second)
		defer tick.Stop()
		for {
			select {
			case <-done:
				return
			case <-tick.C:
				s := st.started.Load()
				if s != 0 && time.Since(time.Unix(0, s)) > 120*time.Second {
					c := st.current.Load()
					dir := os.Getenv("VERIF_REPLAY_DIR")
					if dir == "" {
						dir = filepath.Join(evid.Root(), "replays")
					}
					p := filepath.Join(dir, fmt.Sprintf("C37-hang-%016x.json", evid.Hash(c.InputB64)))
					_ = os.WriteFile(p, []byte(fmt.Sprintf(`{"property":"C37","message":"did not terminate within 120 s","case":{"kind":%q,"input_b64":%q,"prev_b64":%q}}`, c.Kind, c.InputB64, c.PrevB64)), 0o644)
					fmt.Printf("VERIF-VIOLATION property=C37 replay=%s lexing/parsing/checking did not terminate within 120 s\n", p)
					rec.Flush()
					os.Exit(1)
				}
			}
		}
	}()

	if f := evid.ReplayFile(); f != "" {
		var c Case
		if err := evid.LoadReplay(f, &c); err != nil {
			t.Fatalf("bad replay file: %v", err)
		}
		st.knownFS1, st.knownFS2, st.replay, st.knownFS4, st.knownFS5 = false, false, true, false, false
		if msg := st.one(c, "replay"); msg != "" {
			rec.Violation(t, c, "%s", msg)
		}
		return
	}

	// known findings: replay their repros first
	if rec.Known("FS1") {
		pr := parseGuarded([]byte(`let x = "\(y + "in\(z)ner")"`))
		still := false
		if pe, ok := pr.Err.(parser.Error); ok {
			for _, ch := range pe.Errors {
				if cerrors.IsInternalError(ch) {
					still = true
				}
			}
		}
		rec.ReportKnown("FS1", still || pr.Panic != nil)
	}
	if rec.Known("FS2") {
		in := []byte("\"\\(a)\\(b)\" x")
		m, _, _ := checkTokens(in, lexAll(in, true), newPosTable(in), false)
		rec.ReportKnown("FS2", m != "")
	}
	if rec.Known("FS4") {
		pr := parseGuarded([]byte("fun f(): InclusiveRange { return f() }"))
		rec.ReportKnown("FS4", pr.Program != nil && checkGuarded(pr.Program).Panic != nil)
	}
	if rec.Known("FS5") {
		still := false
		for _, src := range []string{"let v: {auth(W) {d", "fun t(x: t) { post {0}; let before = 0 }",
			"import Foo\nimport \"FungibleToken\"", "fun test(n: Int) { post { create before(n) } }"} {
			in := []byte(src)
			pr := parseGuarded(in)
			var errs []error
			if pe, ok := pr.Err.(parser.Error); ok {
				errs = pe.Errors
			} else if pr.Err == nil && pr.Program != nil {
				if ce, ok := checkGuarded(pr.Program).Err.(*sema.CheckerError); ok {
					errs = ce.Errors
				}
			}
			for _, ch := range errs {
				if m, unset := checkPositioned(ch, len(in), 2); m != "" && unset {
					still = true
				}
			}
		}
		rec.ReportKnown("FS5", still)
	}
	if rec.Known("FS43") {
		pr := parseGuarded([]byte("resource C { event ResourceDestroyed() event ResourceDestroyed(c: Int = 1) }"))
		rec.ReportKnown("FS43", pr.Program != nil && checkGuarded(pr.Program).Panic != nil)
	}
	if rec.Known("FS47") {
		in := []byte("0h")
		m, f, _ := checkTokens(in, lexAll(in, true), newPosTable(in), false)
		rec.ReportKnown("FS47", m != "" && f == "FS47")
	}
	if rec.Known("FS48") {
		still := false
		if pe, ok := parseGuarded([]byte("access(a)fun a()switch _\"\\()\\(")).Err.(parser.Error); ok {
			for _, ch := range pe.Errors {
				still = still || cerrors.IsInternalError(ch)
			}
		}
		rec.ReportKnown("FS48", still)
	}
	if rec.Known("FS49") {
		pr := parseGuarded([]byte("let a: AnyResource = Address"))
		rec.ReportKnown("FS49", pr.Program != nil && checkGuarded(pr.Program).Panic != nil)
	}
	if rec.Known("FS42") {
		pr := parseGuarded([]byte("transaction(a: InclusiveRange) {}"))
		rec.ReportKnown("FS42", pr.Program != nil && checkGuarded(pr.Program).Panic != nil)
	}
	if rec.Known("FS7") {
		pr := parseGuarded([]byte("resource interface J { event a() event ResourceDestroyed(c: Int = 1) }"))
		rec.ReportKnown("FS7", pr.Program != nil && checkGuarded(pr.Program).Panic != nil)
	}
	if rec.Known("FS8") {
		still := false
		if pe, ok := parseGuarded([]byte("let x: auth(")).Err.(parser.Error); ok {
			for _, ch := range pe.Errors {
				still = still || cerrors.IsInternalError(ch)
			}
		}
		rec.ReportKnown("FS8", still)
	}
	if rec.Known("FS3") {
		in := []byte("/* abc")
		m, f, _ := checkTokens(in, lexAll(in, true), newPosTable(in), false)
		rec.ReportKnown("FS3", m != "" && f == "FS3")
	}
	if rec.Known("FS6") {
		in := []byte("\"\\(\\")
		m, f, _ := checkTokens(in, lexAll(in, true), newPosTable(in), false)
		rec.ReportKnown("FS6", m != "" && f == "FS6")
	}

	r := evid.Rand(37)
	cfg := srcgen.DefaultConfig()
	cfg.NestedTemplateStrings = true
	g := srcgen.New(r, cfg)
	corpus := harvest()
	if len(corpus) < 1000 {
		rec.Inconclusive(t, "harvested only %d snippets from the repository tests", len(corpus))
	}
	rec.Extra("harvested_snippets", len(corpus))
	N := evid.N(30_000, 120_000)
	layout := func() srcgen.Layout {
		return srcgen.Layout{Comments: []float64{0, 0.05, 0.2, 0.5}[r.Intn(4)], Semicolons: r.Float64() * 0.5, BlankLines: r.Float64() * 0.3,
			Compact: r.Float64(), NonASCII: true, DocComments: r.Intn(2) == 0, IndentSpaces: 1 + r.Intn(4)}
	}
	genProgram := func() *srcgen.Program {
		switch r.Intn(4) {
		case 0:
			return g.ExpressionProgram()
		case 1:
			return g.TypeProgram()
		default:
			return g.Program()
		}
	}
	var lastInput []byte
	pickPrev := func() []byte {
		if r.Intn(3) == 0 && lastInput != nil {
			return lastInput
		}
		return []byte(dirtyPrev[r.Intn(len(dirtyPrev))])
	}
	nastyBudget := 0
	for i := 0; i < N; i++ {
		var input []byte
		var class string
		var notes []string
		switch k := r.Intn(20); {
		case k < 5:
			class = "valid"
			p := genProgram()
			if r.Intn(2) == 0 {
				input = []byte(srcgen.Join(p.Toks))
			} else {
				input = []byte(srcgen.Render(p.Toks, r, layout()).Text)
			}
		case k < 8:
			class = "token-mutated"
			p := genProgram()
			toks, names := srcgen.MutateTokens(r, p.Toks)
			notes = names
			input = []byte(srcgen.Render(toks, r, layout()).Text)
		case k < 11:
			class = "byte-mutated"
			p := genProgram()
			input, notes = srcgen.MutateBytes(r, []byte(srcgen.Render(p.Toks, r, layout()).Text))
		case k < 12:
			class = "stress"
			s, name := srcgen.Nasty(r)
			if len(s) > 20000 {
				// the big ones are expensive: a few per run
				nastyBudget++
				if nastyBudget > 40 {
					s, name = "let x = ((((((((((((((((1))))))))))))))))", "deep-parens-16"
				}
			}
			input, notes = []byte(s), []string{name}
			if r.Intn(3) == 0 {
				var more []string
				input, more = srcgen.MutateBytes(r, input)
				notes = append(notes, more...)
			}
		case k < 14:
			class = "raw"
			input = srcgen.RawBytes(r)
		case k < 17:
			class = "harvest"
			input = []byte(corpus[r.Intn(len(corpus))])
		default:
			class = "harvest-mutated"
			input, notes = srcgen.MutateBytes(r, []byte(corpus[r.Intn(len(corpus))]))
		}
		c := mkCase(class, input, pickPrev(), notes)
		if msg := st.one(c, class); msg != "" {
			// minimise before reporting (same kind of violation, same predecessor)
			_, prev := c.bytes()
			cls := msgClass(msg)
			small := shrinkStructured(input, func(b []byte) bool {
				m := st.quiet(mkCase(class, b, prev, nil), class)
				return m != "" && msgClass(m) == cls
			}, 20000)
			sc := mkCase(class, small, prev, notes)
			if m := st.quiet(sc, class); m != "" {
				c, msg = sc, m
			}
			rec.Violation(t, c, "%s", msg)
		}
		lastInput = input
	}
	if evid.Shard() == 0 && evid.Thorough() {
		// (thorough tier only: growing the pooled token buffer to 2^19 tokens costs ~10 s per fresh lexer)
		// the documented token limit: more than 2^19 tokens must be reported as a user error, not a crash
		big := []byte(strings.Repeat("a ", 1<<18+8))
		c := mkCase("token-limit", big, nil, nil)
		if msg := st.one(c, "token-limit"); msg != "" {
			c.Input, c.InputB64 = "strings.Repeat(\"a \", 1<<18+8)", ""
			rec.Violation(t, c, "%s", msg)
		}
	}
	rec.RequireClasses(t, "valid/parse-ok", "token-mutated/parse-error", "byte-mutated/parse-error", "stress/parse-error", "stress/parse-ok",
		"raw/parse-error", "harvest/parse-ok", "harvest-mutated/parse-error", "check-ok", "check-error")
	// generator health: the "valid" class must mostly parse
	okc, errc := rec.ClassCount("valid/parse-ok"), rec.ClassCount("valid/parse-error")
	rec.Extra("valid_accept_rate", float64(okc)/float64(max64(1, okc+errc)))
	if okc*10 < (okc+errc)*8 {
		rec.Inconclusive(t, "only %d of %d grammar-generated programs parse", okc, okc+errc)
	}
}

func max64(a, b int64) int64 {
	if a > b {
		return a
	}
	return b
}

var _ = rand.Int
