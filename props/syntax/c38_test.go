package syntax

import (
	"fmt"
	"regexp"
	"runtime/debug"
	"sort"
	"strings"
	"testing"

	"github.com/onflow/cadence/ast"

	"verif/lib/evid"
	"verif/lib/srcgen"
)

// C38: print ∘ parse is the identity on ASTs (modulo positions), and the printer reaches a fixed point.

func printGuarded(p *ast.Program) (s string, panicked any) {
	defer func() {
		if r := recover(); r != nil {
			panicked = r
		}
	}()
	return p.String(), nil
}

// dropEmptyElse models finding FS9 (only applied while it is listed as known): the printer omits an
// empty `else {}` block, so the re-parsed AST has Else = nil there.
//
// Likewise FS13: an empty `pre {}` / `post {}` block is omitted by the printer; FS19: an empty transaction parameter list `()`.
func dropEmptyElse(v any, knownFS9, knownFS13, knownFS19 bool) (any, bool) {
	changed := false
	var walk func(v any) any
	walk = func(v any) any {
		switch x := v.(type) {
		case map[string]any:
			for k, val := range x {
				x[k] = walk(val)
			}
			if knownFS13 {
				for _, k := range []string{"PreConditions", "PostConditions"} {
					if c, ok := x[k].(map[string]any); ok {
						if l, isList := c["Conditions"].([]any); c["Conditions"] == nil || isList && len(l) == 0 {
							x[k] = nil
							changed = true
						}
					}
				}
			}
			if knownFS19 && x["Type"] == "TransactionDeclaration" {
				if pl, ok := x["ParameterList"].(map[string]any); ok {
					if l, isList := pl["Parameters"].([]any); pl["Parameters"] == nil || isList && len(l) == 0 {
						x["ParameterList"] = nil
						changed = true
					}
				}
			}
			if knownFS9 && x["Type"] == "IfStatement" {
				if e, ok := x["Else"].(map[string]any); ok {
					if st, has := e["Statements"]; has {
						if l, isList := st.([]any); st == nil || isList && len(l) == 0 {
							x["Else"] = nil
							changed = true
						}
					}
				}
			}
			return x
		case []any:
			for i := range x {
				x[i] = walk(x[i])
			}
			return x
		}
		return v
	}
	return walk(v), changed
}

// operandKeys are the AST fields in which a sub-expression is the *left/base* operand of its parent, i.e. where a
// low-precedence or open-ended sub-expression must be parenthesised by the printer.
// (Right is included: a right operand is followed by further operators whenever the enclosing binary expression is
// itself a left operand, and the open-ended `attach … to e` / `destroy e` then swallow them.)
var operandKeys = map[string]bool{"Left": true, "Right": true, "Expression": true, "TargetExpression": true, "InvokedExpression": true, "Test": true}

// findInOperand reports whether a node of the given kind occurs as left/base operand of an expression node.
func findInOperand(v any, kind string) bool {
	found := false
	var walk func(v any)
	walk = func(v any) {
		switch x := v.(type) {
		case map[string]any:
			pt, _ := x["Type"].(string)
			for k, val := range x {
				if m, ok := val.(map[string]any); ok && operandKeys[k] && strings.HasSuffix(pt, "Expression") && m["Type"] == kind {
					found = true
				}
				walk(val)
			}
		case []any:
			for _, e := range x {
				walk(e)
			}
		}
	}
	walk(v)
	return found
}

// hasFunctionTypeWithoutReturn: `fun(Int)` is parsed with an empty nominal return type (predicate of FS12).
func hasFunctionTypeWithoutReturn(v any) bool {
	found := false
	var walk func(v any)
	walk = func(v any) {
		switch x := v.(type) {
		case map[string]any:
			if x["Type"] == "FunctionType" {
				if ra, ok := x["ReturnTypeAnnotation"].(map[string]any); ok {
					if ty, ok := ra["AnnotatedType"].(map[string]any); ok {
						if id, ok := ty["Identifier"].(map[string]any); ok && id["Identifier"] == "" {
							found = true
						}
					}
				}
			}
			for _, val := range x {
				walk(val)
			}
		case []any:
			for _, e := range x {
				walk(e)
			}
		}
	}
	walk(v)
	return found
}

// hasIntegerMemberAccess: `2 .a` (member access on an integer literal) is printed as `2.a`, which lexes as a
// fixed-point literal without fractional digits (predicate of FS14).
func hasIntegerMemberAccess(v any) bool {
	found := false
	var walk func(v any)
	walk = func(v any) {
		switch x := v.(type) {
		case map[string]any:
			if x["Type"] == "MemberExpression" && x["Optional"] != true {
				if e, ok := x["Expression"].(map[string]any); ok && e["Type"] == "IntegerExpression" {
					found = true
				}
			}
			for _, val := range x {
				walk(val)
			}
		case []any:
			for _, e := range x {
				walk(e)
			}
		}
	}
	walk(v)
	return found
}

// hasNested reports whether a node of kind outer has, under key, a node of kind inner (whose Authorization is null
// when it is a reference type).
func hasNested(v any, outer, key, inner string) bool {
	found := false
	var walk func(v any)
	walk = func(v any) {
		switch x := v.(type) {
		case map[string]any:
			if x["Type"] == outer {
				if e, ok := x[key].(map[string]any); ok && e["Type"] == inner && e["Authorization"] == nil {
					found = true
				}
			}
			for _, val := range x {
				walk(val)
			}
		case []any:
			for _, e := range x {
				walk(e)
			}
		}
	}
	walk(v)
	return found
}

// hasEmptyMapping: an entitlement mapping without elements makes the printer panic (predicate of FS16).
func hasEmptyMapping(v any) bool {
	found := false
	var walk func(v any)
	walk = func(v any) {
		switch x := v.(type) {
		case map[string]any:
			if x["Type"] == "EntitlementMappingDeclaration" {
				if l, ok := x["Elements"].([]any); x["Elements"] == nil || ok && len(l) == 0 {
					found = true
				}
			}
			for _, val := range x {
				walk(val)
			}
		case []any:
			for _, e := range x {
				walk(e)
			}
		}
	}
	walk(v)
	return found
}

// hasNegativeLiteralBase: a negative number literal as base of a postfix operator, `(-5)[i]`, `(-5)!`, `(-1.0).f`,
// is printed without the parentheses and re-parses as the negation of the postfix expression (predicate of FS18).
func hasNegativeLiteralBase(v any) bool {
	found := false
	var walk func(v any)
	walk = func(v any) {
		switch x := v.(type) {
		case map[string]any:
			for _, k := range []string{"Expression", "TargetExpression", "InvokedExpression"} {
				if e, ok := x[k].(map[string]any); ok {
					if s, isStr := e["Value"].(string); e["Type"] == "IntegerExpression" && isStr && strings.HasPrefix(s, "-") {
						found = true
					}
					if e["Type"] == "FixedPointExpression" && e["Negative"] == true {
						found = true
					}
				}
			}
			for _, val := range x {
				walk(val)
			}
		case []any:
			for _, e := range x {
				walk(e)
			}
		}
	}
	walk(v)
	return found
}

// hasContinuationLine reports whether the printed program has a line starting with an operator character that
// follows a line which ends an expression.
func hasContinuationLine(printed string) bool {
	lines := strings.Split(printed, "\n")
	for i := 1; i < len(lines); i++ {
		cur, prev := strings.TrimSpace(lines[i]), strings.TrimSpace(lines[i-1])
		if cur == "" || prev == "" {
			continue
		}
		if (strings.HasPrefix(cur, "(") || strings.HasPrefix(cur, "!") || strings.HasPrefix(cur, "[")) && strings.Contains(prev, "attach ") {
			return true // `attach A() to a` ⏎ `(…)`: the attach parser skips the newline behind its base expression, so the next line continues it as a call
		}
		if strings.ContainsRune("-*/&<", rune(cur[0])) && !strings.HasPrefix(cur, "//") && !strings.HasPrefix(cur, "/*") &&
			!strings.HasSuffix(prev, "{") && !strings.HasSuffix(prev, "(") && !strings.HasSuffix(prev, ",") {
			return true
		}
	}
	return false
}

// hasMoveOperand: a move expression `<-x` as left/base operand, `(<-x) as T`, is printed without the parentheses and
// re-parses as `<-(x as T)` (predicate of FS21).
func hasMoveOperand(v any) bool {
	found := false
	var walk func(v any)
	walk = func(v any) {
		switch x := v.(type) {
		case map[string]any:
			pt, _ := x["Type"].(string)
			for k, val := range x {
				if m, ok := val.(map[string]any); ok && operandKeys[k] && strings.HasSuffix(pt, "Expression") &&
					m["Type"] == "UnaryExpression" && m["Operation"] == "OperationMove" {
					found = true
				}
				walk(val)
			}
		case []any:
			for _, e := range x {
				walk(e)
			}
		}
	}
	walk(v)
	return found
}

// hasNonNominalInstantiation: `(fun(): R)<T>` (type arguments applied to a parenthesised non-nominal type) is printed
// without the parentheses (predicate of FS22).
func hasNonNominalInstantiation(v any) bool {
	found := false
	var walk func(v any)
	walk = func(v any) {
		switch x := v.(type) {
		case map[string]any:
			if x["Type"] == "InstantiationType" {
				if e, ok := x["InstantiatedType"].(map[string]any); ok && e["Type"] != "NominalType" {
					found = true
				}
			}
			for _, val := range x {
				walk(val)
			}
		case []any:
			for _, e := range x {
				walk(e)
			}
		}
	}
	walk(v)
	return found
}

type knownFunc func(string) bool

func (f knownFunc) Known(id string) bool { return f(id) }

// hasSingleDisjunction: `auth(a |)` (one entitlement and a trailing separator) is parsed as a disjunction of one element and
// printed as `auth(a)`, which re-parses as a conjunction (predicate of FS36).
func hasSingleDisjunction(v any) bool {
	found := false
	var walk func(v any)
	walk = func(v any) {
		switch x := v.(type) {
		case map[string]any:
			if l, ok := x["DisjunctiveElements"].([]any); ok && len(l) == 1 {
				found = true
			}
			for _, val := range x {
				walk(val)
			}
		case []any:
			for _, e := range x {
				walk(e)
			}
		}
	}
	walk(v)
	return found
}

var lessBeforeFun = regexp.MustCompile(`<\s*[\[\({]*\s*(view\s+)?fun\b`)
var viewBeforeFun = regexp.MustCompile(`\bview[ \t]*\n\s*(access\([^)]*\)\s*)?fun\b`)

func hasDefaultNotLast(v any) bool {
	found := false
	var walk func(v any)
	walk = func(v any) {
		switch x := v.(type) {
		case map[string]any:
			if x["Type"] == "SwitchStatement" {
				if cs, ok := x["Cases"].([]any); ok {
					for i, c := range cs {
						if m, ok := c.(map[string]any); ok && m["Expression"] == nil && i < len(cs)-1 {
							found = true
						}
					}
				}
			}
			for _, val := range x {
				walk(val)
			}
		case []any:
			for _, e := range x {
				walk(e)
			}
		}
	}
	walk(v)
	return found
}

func hasGenericInvocationOperand(v any) bool {
	found := false
	var walk func(v any)
	walk = func(v any) {
		switch x := v.(type) {
		case map[string]any:
			// `a < b > ()`: a comparison chain whose last operand is the Void literal looks like `a<b>()`
			if x["Type"] == "BinaryExpression" && x["Operation"] == "OperationGreater" {
				l, lok := x["Left"].(map[string]any)
				r, rok := x["Right"].(map[string]any)
				// (or an operand that keeps its parentheses because it binds less tightly than `>`)
				keepsParens := len(r) == 0 || r["Type"] == "BinaryExpression" || r["Type"] == "ConditionalExpression" || r["Type"] == "CastingExpression"
				if lok && rok && l["Type"] == "BinaryExpression" && l["Operation"] == "OperationLess" && keepsParens {
					found = true
				}
			}
			for _, val := range x {
				walk(val)
			}
		case []any:
			for _, e := range x {
				walk(e)
			}
		}
	}
	walk(v)
	return found
}

// knownC38 returns the id of the known finding whose predicate the program matches ("" if none).
func knownC38(rec *evid.Rec, j1 any, msg, printed string) string {
	return knownPrinterDefect(rec.Known, j1, msg, printed)
}

// knownPrinterDefect is shared with C39 (the formatter renders through the same Doc methods).
func knownPrinterDefect(isKnown func(string) bool, j1 any, msg, printed string) string {
	rec := knownFunc(isKnown)
	switch {
	case rec.Known("FS50") && viewBeforeFun.MatchString(printed):
		// FS50: an expression statement/initialiser ending in the identifier `view` followed by a function declaration on the next
		// line: printed as `view` ⏎ `fun …`, which re-parses as a view function
		return "FS50"
	case rec.Known("FS51") && hasDefaultNotLast(j1):
		// FS51: a switch whose `default` is not the last case (accepted by the parser) is printed with an empty `case :`
		return "FS51"
	case rec.Known("FS52") && hasGenericInvocationOperand(j1):
		// FS52: the comparison chain `a < b > ()` (accepted when written `a<h .a>()` with a space) is printed as `a < h.a > ()`,
		// which the parser's `<` disambiguation reads as the generic invocation `a<h.a>()`
		return "FS52"
	case rec.Known("FS40") && strings.Contains(msg, "program too ambiguous, local replay limit"):
		// FS40: the printed form puts spaces around `<`/`,` inside an ambiguous `a < b, c > (d)` region; whitespace tokens count
		// towards the parser's local replay limit of 64 tokens, so the printed form of an accepted program is rejected
		return "FS40"
	case rec.Known("FS23") && strings.Contains(msg, "restricted types have been removed") && lessBeforeFun.MatchString(printed),
		rec.Known("FS23") && strings.HasPrefix(msg, "printed program does not parse") && (strings.Contains(printed, "< (fun") || strings.Contains(printed, "< (view fun")):
		// FS23: `a < fun () {}` (less-than with a function expression without return type): the parser's speculative
		// type-argument parse reports a restricted-type error for `fun () {}` instead of backtracking
		return "FS23"
	case rec.Known("FS20") && hasContinuationLine(printed):
		// FS20: the printer separates statements/conditions by newlines only; a statement that starts with a token that is
		// also a binary operator (`-x`, `*x`, `/storage/p`, `<-x`, `&x`) is then parsed as continuation of the previous line
		return "FS20"
	case rec.Known("FS17") && strings.Contains(msg, "statements on the same line must be separated") && strings.Contains(printed, "()\n"):
		// FS17: the parser gives a Void literal `()` the end position of the token *after* `)`, so a statement ending in `()`
		// followed by a statement on the next line is rejected as "on the same line"
		return "FS17"
	case rec.Known("FS10") && findInOperand(j1, "AttachExpression"):
		return "FS10"
	case rec.Known("FS11") && findInOperand(j1, "DestroyExpression"):
		return "FS11"
	case rec.Known("FS12") && hasFunctionTypeWithoutReturn(j1):
		return "FS12"
	case rec.Known("FS14") && hasIntegerMemberAccess(j1):
		return "FS14"
	case rec.Known("FS36") && strings.Contains(canon(j1), `"DisjunctiveElements":[{"Identifier":{"Identifier":"`) && hasSingleDisjunction(j1):
		return "FS36"
	case rec.Known("FS37") && hasNested(j1, "ReferenceType", "ReferencedType", "FunctionType"):
		// FS37: `&(fun(): R)` is printed as `&fun(): R`; a following `?` (or other suffix) then binds to the return type
		return "FS37"
	case rec.Known("FS38") && hasNested(j1, "ReferenceExpression", "Expression", "ReferenceExpression"):
		// FS38: `&(&a)` (reference expression of a reference expression) is printed as `&&a`, which lexes as the && operator
		return "FS38"
	case rec.Known("FS22") && hasNonNominalInstantiation(j1):
		return "FS22"
	case rec.Known("FS21") && hasMoveOperand(j1):
		return "FS21"
	case rec.Known("FS18") && hasNegativeLiteralBase(j1):
		return "FS18"
	case rec.Known("FS16") && hasEmptyMapping(j1):
		return "FS16"
	case rec.Known("FS15") && hasNested(j1, "ReferenceType", "ReferencedType", "ReferenceType"):
		return "FS15"
	}
	return ""
}

type c38Info struct {
	j1        any
	depth     int
	kinds     map[string]int
	printed   string
	usedFS9   bool
	parsed    bool
	rejectMsg string
}

// roundTrip applies the C38 oracle to one source text. msg == "" means it holds (or the source does not parse).
var knownFS13, knownFS19G bool // set by TestC38 from the findings list

func roundTrip(src []byte, knownFS9 bool) (msg string, info c38Info) {
	info.kinds = map[string]int{}
	pr := parseGuarded(src)
	if pr.Panic != nil || pr.Err != nil || pr.Program == nil {
		if pr.Err != nil {
			info.rejectMsg = firstLine(safeErrorText(pr.Err))
		}
		return "", info // not in the domain of C38 (C37 judges rejections)
	}
	info.parsed = true
	j1, err := astJSON(pr.Program)
	if err != nil {
		return "AST of the source cannot be serialised: " + err.Error(), info
	}
	info.depth = astStats(j1, info.kinds)
	info.j1 = j1
	s, p := printGuarded(pr.Program)
	if p != nil {
		return fmt.Sprintf("printer panicked: %v", p), info
	}
	info.printed = s
	pr2 := parseGuarded([]byte(s))
	if pr2.Panic != nil {
		return fmt.Sprintf("parser panicked on the printed program: %v", pr2.Panic), info
	}
	if pr2.Err != nil {
		return "printed program does not parse: " + parseErrorSummary(pr2.Err), info
	}
	j2, err := astJSON(pr2.Program)
	if err != nil {
		return "AST of the printed program cannot be serialised: " + err.Error(), info
	}
	if knownFS9 || knownFS13 || knownFS19G {
		j1, info.usedFS9 = dropEmptyElse(j1, knownFS9, knownFS13, knownFS19G)
	}
	if d := firstDiff("program", j1, j2); d != "" {
		return "AST differs after print+parse at " + d, info
	}
	s2, p := printGuarded(pr2.Program)
	if p != nil {
		return fmt.Sprintf("printer panicked on the re-parsed program: %v", p), info
	}
	if s2 != s {
		return "printer is not a fixed point: second print differs (" + diffLine(s, s2) + ")", info
	}
	return "", info
}

// parseErrorSummary: first error message + position, one line.
func parseErrorSummary(err error) string {
	t := safeErrorText(err)
	lines := strings.Split(t, "\n")
	var keep []string
	for _, l := range lines {
		l = strings.TrimSpace(l)
		if strings.HasPrefix(l, "error:") || strings.HasPrefix(l, "-->") {
			keep = append(keep, l)
		}
		if len(keep) >= 2 {
			break
		}
	}
	if len(keep) == 0 {
		return firstLine(t)
	}
	return strings.Join(keep, " ")
}

func diffLine(a, b string) string {
	la, lb := strings.Split(a, "\n"), strings.Split(b, "\n")
	for i := 0; i < len(la) && i < len(lb); i++ {
		if la[i] != lb[i] {
			return fmt.Sprintf("line %d: %q vs %q", i+1, clip(la[i], 120), clip(lb[i], 120))
		}
	}
	return fmt.Sprintf("%d vs %d lines", len(la), len(lb))
}

func clip(s string, n int) string {
	if len(s) > n {
		return s[:n] + "…"
	}
	return s
}

// node kinds the generator must produce in every run (JSON "Type" values of the AST)
var requiredKinds = []string{
	"WhileStatement", "VariableSizedType", "VariableDeclaration", "UnaryExpression", "Transfer", "TransactionDeclaration", "TestCondition",
	"SwitchStatement", "SwitchCase", "SwapStatement", "StringTemplateExpression", "StringExpression", "SpecialFunctionDeclaration",
	"ReturnStatement", "RemoveStatement", "ReferenceType", "ReferenceExpression", "Program", "PragmaDeclaration", "PathExpression",
	"OptionalType", "NominalType", "NilExpression", "MemberExpression", "InvocationExpression", "IntersectionType", "InterfaceDeclaration",
	"IntegerExpression", "InstantiationType", "IndexExpression", "ImportDeclaration", "IfStatement", "IdentifierExpression", "GuardStatement",
	"FunctionType", "FunctionExpression", "FunctionDeclaration", "FunctionBlock", "ForceExpression", "ForStatement", "FixedPointExpression",
	"FieldDeclaration", "ExpressionStatement", "EnumCaseDeclaration", "EntitlementMappingDeclaration", "EntitlementDeclaration", "EmitStatement",
	"EmitCondition", "DictionaryType", "DictionaryExpression", "DictionaryEntry", "DestroyExpression", "CreateExpression", "ContinueStatement",
	"ConstantSizedType", "ConditionalExpression", "CompositeDeclaration", "CastingExpression", "BreakStatement", "BoolExpression", "Block",
	"BinaryExpression", "AttachmentDeclaration", "AttachExpression", "AssignmentStatement", "ArrayExpression",
}

var decisionFeatures = []string{"expr/paren-operand", "expr/bare-operand", "lit/string-escape", "expr/string-template", "expr/cast", "expr/unary",
	"type/parenthesized", "type/optional", "type/reference", "type/auth-reference", "expr/conditional", "expr/reference", "expr/negative-literal", "type/function", "expr/binary-mixed"}

func TestC38(t *testing.T) {
	rec := evid.Start(t, "C38", "programs from the grammar generator (full programs, expression-dense and type-dense programs; plain and randomly laid out, without "+
		"comments) plus the repository-test snippets that parse, plus (every run, exhaustively) both nesting shapes `(x op1 y) op2 z` / `x op1 (y op2 z)` for every "+
		"ordered pair of the 19 binary operators and the cast/unary/force/member/index/conditional mixes (classes prec/<assoc>/<side>/<relation>, prec/mix/*); oracle: p1=Parse(src), s=p1.String(), p2=Parse(s) succeeds, JSON(p1)==JSON(p2) after removing "+
		"keys ending in Pos/Range and DocString/Comments, and p2.String()==s. Non-trivial: AST depth ≥ 4 and at least one construct that needs a "+
		"parenthesisation/escape decision (nested operator operands, casts, unary, conditional, string escapes/templates, optional/reference/function types). Distinct by source text.")
	knownFS9 := rec.Known("FS9")
	knownFS13 = rec.Known("FS13") && evid.ReplayFile() == ""
	knownFS19G = rec.Known("FS19") && evid.ReplayFile() == ""
	if knownFS19G {
		knownFS19G = false
		m, _ := roundTrip([]byte("transaction() { }"), false)
		knownFS19G = true
		rec.ReportKnown("FS19", m != "")
	}
	if f := evid.ReplayFile(); f != "" {
		var c Case
		if err := evid.LoadReplay(f, &c); err != nil {
			t.Fatalf("bad replay file: %v", err)
		}
		in, _ := c.bytes()
		if msg, _ := roundTrip(in, false); msg != "" {
			rec.Violation(t, c, "%s", msg)
		}
		return
	}
	if knownFS9 {
		m, _ := roundTrip([]byte("fun f() { if a { } else if b { } else { } }"), false)
		rec.ReportKnown("FS9", m != "")
	}
	if knownFS13 {
		knownFS13 = false
		m, _ := roundTrip([]byte("fun f() { pre { } }"), false)
		knownFS13 = true
		rec.ReportKnown("FS13", m != "")
	}
	for id, repro := range map[string]string{"FS10": "let x = (attach A() to a) / x", "FS11": "let x = (destroy r) + 1", "FS12": "let x: fun(Int) = y", "FS14": "let a = 2 .a", "FS15": "let a: &(&T) = a", "FS16": "entitlement mapping N {}", "FS17": "fun a() { x = (); () }", "FS18": "let x = (-5)[0]", "FS20": "fun f() { pre { a; -b } }", "FS21": "let a = (<-x) as T", "FS22": "let a: (fun(): R)<T> = x", "FS23": "let x = a<fun(){ }", "FS36": "let a: auth(E |) &T = x", "FS37": "let a: (&(fun(): R))? = x", "FS38": "let x = &(&a) as &T", "FS50": "let a <- (view)\nfun a() {}", "FS51": "fun a(){switch a{default:case a:}}", "FS52": "fun a(){((a<h .a>())&{})}"} {
		if rec.Known(id) {
			m, _ := roundTrip([]byte(repro), false)
			rec.ReportKnown(id, m != "")
		}
	}
	r := evid.Rand(38)
	cfg := srcgen.DefaultConfig()
	cfg.NestedTemplateStrings = false // C37's FS1: such programs do not parse
	g := srcgen.New(r, cfg)
	kinds := map[string]int{}
	// (json.Marshal of the AST re-compacts every nested MarshalJSON result, ~5 ms per program: quick counts are sized for that)
	defer debug.SetGCPercent(debug.SetGCPercent(400))
	N := evid.N(5_500, 25_000)
	report := func(class string, src []byte, notes []string, msg string) {
		cls := msgClass(msg)
		small := shrinkStructured(src, func(b []byte) bool {
			m, inf := roundTrip(b, knownFS9)
			return m != "" && msgClass(m) == cls && knownC38(rec, inf.j1, m, inf.printed) == ""
		}, 4000)
		if m, _ := roundTrip(small, knownFS9); m != "" {
			src, msg = small, m
		}
		rec.Violation(t, mkCase(class, src, nil, notes), "%s", msg)
	}
	eval := func(class string, src []byte, feats map[string]int) {
		msg, info := roundTrip(src, knownFS9)
		if !info.parsed {
			rec.Class(class + "/rejected-by-parser")
			if rec.WantSample("rejected/" + info.rejectMsg) && rec.ClassCount(class+"/rejected-by-parser") < 4 {
				rec.Sample("rejected/"+info.rejectMsg, map[string]any{"source": clip(string(src), 300), "error": info.rejectMsg})
			}
			return
		}
		rec.Class(class + "/round-tripped")
		for k, v := range info.kinds {
			kinds[k] += v
		}
		if info.usedFS9 {
			rec.Excluded("FS9/FS13/FS19")
		}
		decision := false
		if feats != nil {
			for _, f := range decisionFeatures {
				if feats[f] > 0 {
					decision = true
					break
				}
			}
		} else {
			decision = info.kinds["BinaryExpression"]+info.kinds["UnaryExpression"]+info.kinds["CastingExpression"]+info.kinds["ConditionalExpression"] >= 2 ||
				info.kinds["StringTemplateExpression"] > 0 || strings.Contains(string(src), "\\")
		}
		nontrivial := info.depth >= 4 && decision
		rec.CaseH(nontrivial, evid.Hash(string(src)))
		if nontrivial && rec.WantSample(class) {
			rec.Sample(class, map[string]any{"source": clip(string(src), 400), "printed": clip(info.printed, 400), "ast_depth": info.depth})
		}
		if msg != "" {
			if id := knownC38(rec, info.j1, msg, info.printed); id != "" {
				rec.Excluded(id)
				return
			}
			var notes []string
			for k := range feats {
				notes = append(notes, k)
			}
			sort.Strings(notes)
			report(class, src, notes, msg)
		}
	}
	// systematic precedence/associativity stress: every ordered pair of binary operators in both nesting shapes, plus the
	// cast/unary/force/member/conditional mixes (enumerated completely in every run, shard 0)
	if evid.Shard() == 0 {
		for _, pc := range srcgen.PrecedenceCases() {
			src := []byte(pc.Source + "\n")
			msg, info := roundTrip(src, knownFS9)
			cls := "prec/" + pc.Class
			if !info.parsed {
				rec.Class("prec-outcome/rejected-by-parser")
				rec.Class(cls + "/rejected-by-parser")
				continue
			}
			rec.CaseH(pc.NeedsParens, evid.Hash(pc.Source))
			for k, v := range info.kinds {
				kinds[k] += v
			}
			if msg != "" {
				if id := knownC38(rec, info.j1, msg, info.printed); id != "" {
					rec.Excluded(id)
					rec.Class("prec-outcome/excluded-" + id)
					continue
				}
				rec.Violation(t, mkCase("precedence", src, nil, []string{pc.Class}), "%s (printed: %q)", msg, info.printed)
			}
			rec.Class("prec-outcome/judged")
			rec.Class(cls)
			if pc.NeedsParens {
				rec.Class(cls + "/parentheses-needed")
			}
		}
		var need []string
		for _, a := range []string{"left-assoc", "right-assoc"} {
			for _, side := range []string{"left", "right"} {
				for _, rl := range []string{"lower", "equal", "higher"} {
					need = append(need, "prec/"+a+"/"+side+"/"+rl)
				}
			}
		}
		need = append(need, "prec/mix/nested-same-operator", "prec/mix/binary-under-cast", "prec/mix/binary-under-unary", "prec/mix/binary-under-force",
			"prec/mix/conditional-under-binary-left", "prec/mix/cast-under-unary", "prec/mix/unary-under-force")
		rec.RequireClasses(t, need...)
	}
	for i := 0; i < N; i++ {
		var p *srcgen.Program
		var class string
		switch r.Intn(10) {
		case 0, 1, 2:
			p, class = g.ExpressionProgram(), "expression"
		case 3:
			p, class = g.TypeProgram(), "type"
		default:
			p, class = g.Program(), "program"
		}
		var src string
		if r.Intn(2) == 0 {
			src = srcgen.Join(p.Toks)
		} else {
			src = srcgen.Render(p.Toks, r, srcgen.Layout{Semicolons: r.Float64() * 0.5, BlankLines: r.Float64() * 0.3, Compact: r.Float64(), IndentSpaces: 1 + r.Intn(4)}).Text
		}
		eval(class, []byte(src), p.Features)
	}
	// repository test snippets (each once per run, a deterministic slice per shard)
	corpus := harvest()
	per := evid.N(1500, len(corpus))
	start := 0
	if len(corpus) > per {
		start = r.Intn(len(corpus) - per)
	}
	for i := start; i < len(corpus) && i < start+per; i++ {
		eval("harvest", []byte(corpus[i]), nil)
	}
	// generator health
	okc := rec.ClassCount("program/round-tripped") + rec.ClassCount("expression/round-tripped") + rec.ClassCount("type/round-tripped")
	rej := rec.ClassCount("program/rejected-by-parser") + rec.ClassCount("expression/rejected-by-parser") + rec.ClassCount("type/rejected-by-parser")
	rec.Extra("generated_accept_rate", float64(okc)/float64(max64(1, okc+rej)))
	rec.Extra("node_kinds", kinds)
	if okc*10 < (okc+rej)*8 {
		rec.Inconclusive(t, "only %d of %d generated programs parse", okc, okc+rej)
	}
	var missing []string
	for _, k := range requiredKinds {
		if kinds[k] == 0 {
			missing = append(missing, k)
		}
	}
	if len(missing) > 0 && evid.N(1, 1) == 1 && N >= 5000 {
		rec.Inconclusive(t, "AST node kinds never produced: %v", missing)
	}
}
