package syntax

import (
	"fmt"
	"math/rand"
	"runtime/debug"
	"sort"
	"strings"
	"testing"

	"github.com/onflow/cadence/formatter"

	"verif/lib/evid"
	"verif/lib/srcgen"
)

// C39: formatter output parses, preserves the AST (imports may be reordered) and every comment, and is a fixed point.

func (o Options) toFormatter() formatter.Options {
	return formatter.Options{
		LineWidth: o.LineWidth, IndentCharacter: o.IndentCharacter, IndentCount: o.IndentCount, SortImports: o.SortImports,
		StripSemicolons: o.StripSemicolons, KeepBlankLines: o.KeepBlankLines, FormatVersion: "1", SkipVerify: o.SkipVerify,
	}
}

func randomOptions(r *rand.Rand) Options {
	return Options{
		LineWidth:       []int{1, 20, 40, 80, 100}[r.Intn(5)],
		IndentCharacter: []string{" ", "\t"}[r.Intn(2)],
		IndentCount:     1 + r.Intn(8),
		SortImports:     r.Intn(2) == 0,
		StripSemicolons: r.Intn(2) == 0,
		KeepBlankLines:  []int{0, 1, 3}[r.Intn(3)],
		SkipVerify:      r.Intn(2) == 0,
	}
}

func formatGuarded(src []byte, o Options) (out []byte, err error, panicked any) {
	defer func() {
		if r := recover(); r != nil {
			panicked = r
		}
	}()
	out, err = formatter.Format(src, o.toFormatter())
	return
}

// splitImports separates the import declarations of a stripped AST from the rest (in order).
func splitImports(v any) (imports []string, rest []any) {
	m, _ := v.(map[string]any)
	decls, _ := m["Declarations"].([]any)
	for _, d := range decls {
		if dm, ok := d.(map[string]any); ok && dm["Type"] == "ImportDeclaration" {
			imports = append(imports, canon(d))
			continue
		}
		rest = append(rest, d)
	}
	sort.Strings(imports)
	return
}

// normComment: trailing whitespace of each line of a comment is not significant (the formatter strips trailing
// line whitespace by design), and the indentation of the continuation lines of a block comment follows the new layout.
func normComment(c string) string {
	lines := strings.Split(c, "\n")
	for i := range lines {
		lines[i] = strings.TrimRight(lines[i], " \t\r")
		if i > 0 {
			lines[i] = strings.TrimLeft(lines[i], " \t")
		}
	}
	return strings.Join(lines, "\n")
}

func commentMultiset(src []byte) map[string]int {
	m := map[string]int{}
	for _, c := range srcgen.ScanComments(src) {
		m[normComment(c)]++
	}
	return m
}

func diffMultiset(a, b map[string]int) string {
	var keys []string
	for k := range a {
		keys = append(keys, k)
	}
	for k := range b {
		if _, ok := a[k]; !ok {
			keys = append(keys, k)
		}
	}
	sort.Strings(keys)
	var parts []string
	for _, k := range keys {
		if a[k] != b[k] {
			parts = append(parts, fmt.Sprintf("%q: %d in the input, %d in the output", clip(k, 60), a[k], b[k]))
		}
		if len(parts) >= 3 {
			break
		}
	}
	return strings.Join(parts, "; ")
}

type c39Info struct {
	parsed    bool
	errored   bool
	errText   string
	out       []byte
	out2      []byte
	j1        any
	lineBreak bool
}

// formatOracle applies the C39 clauses to one (source, options) pair.
func formatOracle(src []byte, o Options) (msg string, info c39Info) {
	pr := parseGuarded(src)
	if pr.Panic != nil || pr.Err != nil || pr.Program == nil {
		return "", info
	}
	info.parsed = true
	j1, e1 := astJSON(pr.Program)
	info.j1 = j1
	out, err, p := formatGuarded(src, o)
	if p != nil {
		return fmt.Sprintf("formatter panicked: %v", p), info
	}
	if err != nil {
		info.errored = true
		info.errText = firstLine(err.Error())
		return "", info // a reported error is allowed by the statement
	}
	info.out = out
	// (1) parses
	pr2 := parseGuarded(out)
	if pr2.Panic != nil {
		return fmt.Sprintf("parser panicked on the formatter output: %v", pr2.Panic), info
	}
	if pr2.Err != nil {
		return "formatter output does not parse: " + parseErrorSummary(pr2.Err), info
	}
	// (2) same AST modulo import order
	j2, e2 := astJSON(pr2.Program)
	if e1 != nil || e2 != nil {
		return fmt.Sprintf("AST cannot be serialised: %v %v", e1, e2), info
	}
	if inheritPrinterDefects {
		// FS32: the formatter renders through the same ast Doc methods as the printer and inherits its defects (C38 FS9…FS23):
		// empty else / pre / post blocks and an empty transaction parameter list are dropped
		j1, _ = dropEmptyElse(j1, true, true, true)
	}
	i1, r1 := splitImports(j1)
	i2, r2 := splitImports(j2)
	if !o.SortImports {
		// without import sorting the declaration order is fully preserved
		if d := firstDiff("program", j1, j2); d != "" {
			return "AST changed by formatting at " + d, info
		}
	} else {
		if strings.Join(i1, "\n") != strings.Join(i2, "\n") {
			return fmt.Sprintf("import declarations changed by formatting: %s vs %s", clip(strings.Join(i1, " | "), 300), clip(strings.Join(i2, " | "), 300)), info
		}
		if d := firstDiff("declarations", r1, r2); d != "" {
			return "AST changed by formatting at " + d, info
		}
	}
	// (3) comments
	if d := diffMultiset(commentMultiset(src), commentMultiset(out)); d != "" {
		return "comments changed by formatting: " + d, info
	}
	// (4) fixed point
	out2, err2, p2 := formatGuarded(out, o)
	if p2 != nil {
		return fmt.Sprintf("formatter panicked on its own output: %v", p2), info
	}
	if err2 != nil {
		return "formatter rejects its own output: " + firstLine(err2.Error()), info
	}
	info.out2 = out2
	if string(out2) != string(out) {
		return "formatter is not idempotent (" + diffLine(string(out), string(out2)) + ")", info
	}
	for _, l := range strings.Split(string(src), "\n") {
		if len(l) > o.LineWidth {
			info.lineBreak = true
			break
		}
	}
	return "", info
}

func TestC39(t *testing.T) {
	rec := evid.Start(t, "C39", "grammar-generated programs rendered with comments (//, ///, /* */, /** */, nested, multi-line, with quotes/keywords/non-ASCII) at random token gaps "+
		"(leading, trailing, same-line, inside empty lists, between arguments, before else, after {, end of file; 2–3 comments of mixed forms in one gap after the last "+
		"element before a closing )/]/}, after a comma and between statements — classes multi-gap/*, of which multi-judged/* reached the full oracle), random blank lines and semicolons, plus the repository's "+
		"formatter/parser test snippets; every case with random options (LineWidth 1..100, indent space/tab × 1..8, SortImports, StripSemicolons, KeepBlankLines 0/1/3, SkipVerify). "+
		"Oracle when Format returns no error: output parses; position-stripped AST JSON equal (imports as a multiset when SortImports); multiset of comment texts (independent scanner, "+
		"trailing line whitespace and continuation-line indentation ignored) equal; Format(output) == output. Non-trivial: ≥ 2 comments in ≥ 2 gap classes and a source line longer than LineWidth. Distinct by source+options.")
	if f := evid.ReplayFile(); f != "" {
		var c Case
		if err := evid.LoadReplay(f, &c); err != nil || c.Options == nil {
			t.Fatalf("bad replay file: %v", err)
		}
		in, _ := c.bytes()
		if msg, _ := formatOracle(in, *c.Options); msg != "" {
			rec.Violation(t, c, "%s", msg)
		}
		return
	}
	defer debug.SetGCPercent(debug.SetGCPercent(400))
	inheritPrinterDefects = rec.Known("FS32")
	r := evid.Rand(39)
	cfg := srcgen.DefaultConfig()
	cfg.MaxDecls, cfg.MaxStmts = 4, 3
	g := srcgen.New(r, cfg)
	N := evid.N(2200, 25_000)
	known := func(msg string, src []byte, o Options, info c39Info) string { return knownC39(rec, msg, src, o, info) }
	report := func(class string, src []byte, o Options, notes []string, msg string) {
		cls := msgClass(msg)
		small := shrinkStructured(src, func(b []byte) bool {
			m, inf := formatOracle(b, o)
			return m != "" && msgClass(m) == cls && known(m, b, o, inf) == ""
		}, 1500)
		if m, _ := formatOracle(small, o); m != "" {
			src, msg = small, m
		}
		c := mkCase(class, src, nil, notes)
		c.Options = &o
		rec.Violation(t, c, "%s", msg)
	}
	errors := map[string]int{}
	eval := func(class string, src []byte, o Options, comments []srcgen.Comment, multi map[string]int) {
		msg, info := formatOracle(src, o)
		// gaps with 2–3 comments: how many are produced, and how many of those cases are actually judged
		multiOutcome := func(outcome string) {
			if len(multi) == 0 {
				return
			}
			rec.Class("multi-outcome/" + outcome)
			for k, n := range multi {
				rec.ClassN("multi-gap/"+k, int64(n))
				if outcome == "judged" {
					rec.Class("multi-judged/" + k)
				}
			}
		}
		if !info.parsed {
			rec.Class(class + "/rejected-by-parser")
			multiOutcome("rejected-by-parser")
			return
		}
		gaps := map[string]bool{}
		for _, c := range comments {
			gaps[c.Class] = true
			rec.Class("gap/" + c.Class)
		}
		if info.errored {
			rec.Class(class + "/format-error")
			key := info.errText
			if i := strings.IndexAny(key, "0123456789"); i > 20 {
				key = key[:i]
			}
			errors[clip(key, 90)]++
			rec.CaseH(false, evid.Hash(string(src), o))
			multiOutcome("format-error")
			return
		}
		rec.Class(class + "/formatted")
		ncomments := len(comments)
		if comments == nil {
			ncomments = len(srcgen.ScanComments(src))
		}
		nontrivial := ncomments >= 2 && (len(gaps) >= 2 || comments == nil) && info.lineBreak
		rec.CaseH(nontrivial, evid.Hash(string(src), o))
		if nontrivial && rec.WantSample(class) {
			rec.Sample(class, map[string]any{"source": clip(string(src), 500), "options": o, "output": clip(string(info.out), 500)})
		}
		if msg != "" {
			if id := known(msg, src, o, info); id != "" {
				rec.Excluded(id)
				multiOutcome("excluded-" + id)
				return
			}
			report(class, src, o, nil, msg)
		}
		multiOutcome("judged")
	}
	// ground-truth check of the independent comment scanner on what the renderer injected
	scannerMismatch := 0
	for i := 0; i < N; i++ {
		var p *srcgen.Program
		if r.Intn(5) == 0 {
			p = g.ExpressionProgram()
		} else {
			p = g.Program()
		}
		l := srcgen.Layout{Comments: []float64{0.02, 0.03, 0.05, 0.1}[r.Intn(4)], Semicolons: r.Float64() * 0.5, BlankLines: r.Float64() * 0.4,
			Compact: r.Float64(), NonASCII: r.Intn(2) == 0, DocComments: r.Intn(3) == 0, IndentSpaces: 1 + r.Intn(4),
			MultiComments: []float64{0, 0.05, 0.12, 0.25}[r.Intn(4)]}
		rd := srcgen.Render(p.Toks, r, l)
		scanned := srcgen.ScanComments([]byte(rd.Text))
		if len(scanned) != len(rd.Comments) {
			if pr := parseGuarded([]byte(rd.Text)); pr.Err == nil {
				scannerMismatch++
				if scannerMismatch == 1 {
					rec.Sample("scanner-mismatch", map[string]any{"source": rd.Text, "scanned": scanned, "injected": rd.Comments})
				}
			}
		}
		eval("generated", []byte(rd.Text), randomOptions(r), rd.Comments, rd.MultiGaps)
	}
	corpus := harvest()
	per := evid.N(700, 7000)
	for k := 0; k < per && len(corpus) > 0; k++ {
		eval("harvest", []byte(corpus[r.Intn(len(corpus))]), randomOptions(r), nil, nil)
	}
	rec.Extra("formatter_errors", errors)
	rec.Extra("comment_scanner_mismatches", scannerMismatch)
	if scannerMismatch > 0 {
		rec.Inconclusive(t, "the independent comment scanner disagrees with the renderer's ground truth on %d accepted sources (see sample)", scannerMismatch)
	}
	okc, errc := rec.ClassCount("generated/formatted")+rec.ClassCount("harvest/formatted"), rec.ClassCount("generated/format-error")+rec.ClassCount("harvest/format-error")
	rec.Extra("format_error_rate", float64(errc)/float64(max64(1, okc+errc)))
	if errc*100 > (okc+errc)*20 {
		rec.Inconclusive(t, "the formatter returned an error for %d of %d accepted inputs (> 20 %%): %v", errc, okc+errc, errors)
	}
	rec.RequireClasses(t, "generated/formatted", "harvest/formatted", "gap/leading", "gap/trailing", "gap/inline", "gap/empty-list", "gap/between-args", "gap/after-open-brace", "gap/eof",
		"multi-judged/multi/before-close-paren", "multi-judged/multi/before-close-bracket", "multi-judged/multi/before-close-brace", "multi-judged/multi/after-comma", "multi-judged/multi/separator")
}

// knownC39 returns the id of a listed known finding matching the failure ("" if none).
var inheritPrinterDefects bool

func knownC39(rec *evid.Rec, msg string, src []byte, o Options, info c39Info) string {
	if o.SkipVerify && rec.Known("FS29") && (strings.HasPrefix(msg, "formatter output does not parse") || strings.HasPrefix(msg, "AST changed") || strings.HasPrefix(msg, "import declarations changed")) {
		// FS29: rendering defects that the formatter's own round-trip verification catches (it then returns an error, which the
		// statement allows) are returned as "successful" output when the caller sets SkipVerify. Predicate: the same input with
		// SkipVerify=false is answered with an error.
		o2 := o
		o2.SkipVerify = false
		if _, inf := formatOracle(src, o2); inf.errored {
			rec.Class("skipverify-exposed/" + msgClass(msg))
			return "FS29"
		}
	}
	if strings.HasPrefix(msg, "formatter is not idempotent") && rec.Known("FS30") && len(srcgen.ScanComments(info.out)) > 0 &&
		codeOnly(info.out) == codeOnly(info.out2) &&
		(diffMultiset(commentMultiset(info.out), commentMultiset(info.out2)) == "" || explainCommentChange(rec, info.out, info.out2) != "") {
		// FS30: comment placement is not stable: a comment that the first pass moved (e.g. hoisted in front of an argument list, or
		// several comments joined on one line) is attached to a different node by the second pass. Predicate: the two outputs have
		// the same comments and, with comments and whitespace removed, the same text.
		return "FS30"
	}
	if inheritPrinterDefects && info.j1 != nil && (strings.HasPrefix(msg, "formatter output does not parse") || strings.HasPrefix(msg, "AST changed") ||
		strings.HasPrefix(msg, "formatter panicked") || strings.HasPrefix(msg, "import declarations changed")) {
		if id := knownPrinterDefect(func(string) bool { return true }, info.j1, msg+" "+lastFormatError(src, o), string(info.out)); id != "" {
			rec.Class("inherited-printer-defect/" + id)
			return "FS32"
		}
	}
	if strings.HasPrefix(msg, "comments changed") {
		if id := explainCommentChange(rec, src, info.out); id != "" {
			return id
		}
	}
	if strings.HasPrefix(msg, "formatter is not idempotent") && !o.StripSemicolons && rec.Known("FS41") && strings.Contains(string(info.out), ";;") &&
		strings.ReplaceAll(codeOnly(info.out), ";", "") == strings.ReplaceAll(codeOnly(info.out2), ";", "") {
		// FS41: with StripSemicolons=false the semicolon after a top-level declaration is emitted twice (`let a = 1;;`); when the
		// value is re-parenthesised the second pass loses both. Predicate: the two outputs differ only in semicolons.
		return "FS41"
	}
	if strings.HasPrefix(msg, "formatter is not idempotent") && o.SkipVerify && rec.Known("FS31") && rec.Known("FS29") && len(srcgen.ScanComments(info.out)) > 0 {
		// FS31 seen through SkipVerify (FS29): with verification the second pass rejects the first output
		o2 := o
		o2.SkipVerify = false
		if lastFormatError(info.out, o2) != "" {
			return "FS31"
		}
	}
	if strings.HasPrefix(msg, "formatter rejects its own output") && rec.Known("FS31") && len(srcgen.ScanComments(info.out)) > 0 {
		// FS31: same instability as FS30, but the second pass fails its own verification (a moved comment ends up where the
		// next rendering breaks the code)
		return "FS31"
	}
	return ""
}

// explainCommentChange recognises the listed comment defects, alone or combined:
//   - FS33: a comment inside the expression of a string template is dropped without any error;
//   - FS34: a comment next to the `else` of an if statement (between `}` and `else`, or between `else` and `if`/`{`) is dropped;
//   - FS35: a comment is rendered behind a line comment on the same line and becomes part of it.
//
// Every comment missing from the output must be explained by FS33/FS34 or be part of the single merged line comment that
// appears new in the output (whitespace ignored, source order); anything else stays a violation.
func explainCommentChange(rec *evid.Rec, src, outText []byte) string {
	out := commentMultiset(outText)
	in := commentMultiset(src)
	var extra []string
	for k, n := range out {
		for i := in[k]; i < n; i++ {
			extra = append(extra, k)
		}
	}
	used := ""
	cs := srcgen.ScanCommentsDetailed(src)
	missing := map[string]int{}
	for k, n := range in {
		if n > out[k] {
			missing[k] = n - out[k]
		}
	}
	explained := map[string]int{}
	type occ struct {
		key string
		ok  bool
	}
	var occs []occ
	for i, c := range cs {
		k := normComment(c.Text)
		if missing[k] == 0 {
			continue
		}
		end := c.Offset + len(c.Text)
		for j := i + 1; ; j++ {
			for end < len(src) && (src[end] == ' ' || src[end] == '\n' || src[end] == '\t' || src[end] == '\r') {
				end++
			}
			if j < len(cs) && cs[j].Offset == end {
				end += len(cs[j].Text)
				continue
			}
			break
		}
		start := c.Offset
		for j := i - 1; ; j-- {
			for start > 0 && (src[start-1] == ' ' || src[start-1] == '\n' || src[start-1] == '\t' || src[start-1] == '\r') {
				start--
			}
			if j >= 0 && cs[j].Offset+len(cs[j].Text) == start {
				start = cs[j].Offset
				continue
			}
			break
		}
		switch {
		case c.InTemplate && rec.Known("FS33"):
			explained[k]++
			occs = append(occs, occ{k, true})
			if used == "" {
				used = "FS33"
			}
		case rec.Known("FS34") && (strings.HasPrefix(string(src[end:]), "else") || strings.HasSuffix(string(src[:start]), "else")):
			explained[k]++
			occs = append(occs, occ{k, true})
			if used == "" {
				used = "FS34"
			}
		default:
			occs = append(occs, occ{k, false})
		}
	}
	// occurrences with the same text are interchangeable: the explained ones are taken as the missing ones first
	var unexplained []string
	left := map[string]int{}
	for k, n := range missing {
		if n > explained[k] {
			left[k] = n - explained[k]
		}
	}
	for _, o := range occs {
		if !o.ok && left[o.key] > 0 {
			unexplained = append(unexplained, o.key)
			left[o.key]--
		}
	}
	for _, n := range left {
		if n > 0 {
			return "" // more copies missing than the source has unexplained occurrences: not understood
		}
	}
	if len(extra) == 0 && len(unexplained) == 0 {
		return used
	}
	if rec.Known("FS35") && len(extra) == 1 && strings.HasPrefix(extra[0], "//") && len(unexplained) >= 2 {
		var cat strings.Builder
		for _, k := range unexplained {
			cat.WriteString(strings.Join(strings.Fields(k), ""))
		}
		if cat.String() == strings.Join(strings.Fields(extra[0]), "") {
			return "FS35"
		}
	}
	return ""
}

// lastFormatError returns the error text of formatting src (used to recognise parser messages behind a verification error).
func lastFormatError(src []byte, o Options) string {
	_, err, _ := formatGuarded(src, o)
	if err != nil {
		return err.Error()
	}
	return ""
}

// codeOnly removes the comments and all whitespace.
func codeOnly(src []byte) string {
	var sb strings.Builder
	pos := 0
	for _, c := range srcgen.ScanCommentsDetailed(src) { // by offset: the same text may also occur inside a string literal
		sb.Write(src[pos:c.Offset])
		pos = c.Offset + len(c.Text)
	}
	sb.Write(src[pos:])
	return strings.Join(strings.Fields(sb.String()), "")
}

// hasMultiCommentLine reports whether a line of the text consists of two or more comments and nothing else.
func hasMultiCommentLine(out []byte) bool {
	for _, l := range strings.Split(string(out), "\n") {
		t := strings.TrimSpace(l)
		if !strings.HasPrefix(t, "/*") {
			continue
		}
		cs := srcgen.ScanComments([]byte(t))
		if len(cs) >= 2 {
			rest := t
			for _, c := range cs {
				rest = strings.Replace(rest, c, "", 1)
			}
			if strings.TrimSpace(rest) == "" {
				return true
			}
		}
	}
	return false
}
