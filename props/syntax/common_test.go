package syntax

import (
	"bytes"
	"encoding/base64"
	"encoding/json"
	"fmt"
	"os"
	"path/filepath"
	"regexp"
	"sort"
	"strings"
	"sync"
	"unicode/utf8"

	"github.com/onflow/cadence/ast"
	"github.com/onflow/cadence/parser"

	"verif/lib/srcgen"
)

// Case is the replay form of one syntax case.
type Case struct {
	Kind     string   `json:"kind"`
	Input    string   `json:"input"`               // quoted for reading (lossy for invalid UTF-8)
	InputB64 string   `json:"input_b64"`           // authoritative bytes
	PrevB64  string   `json:"prev_b64,omitempty"`  // C37: input lexed before (pooled state)
	Options  *Options `json:"options,omitempty"`   // C39
	Notes    []string `json:"mutations,omitempty"` // mutation names / feature labels
}

// Options mirrors formatter.Options (kept as plain data for replay).
type Options struct {
	LineWidth       int    `json:"line_width"`
	IndentCharacter string `json:"indent_character"`
	IndentCount     int    `json:"indent_count"`
	SortImports     bool   `json:"sort_imports"`
	StripSemicolons bool   `json:"strip_semicolons"`
	KeepBlankLines  int    `json:"keep_blank_lines"`
	SkipVerify      bool   `json:"skip_verify"`
}

func mkCase(kind string, input, prev []byte, notes []string) Case {
	c := Case{Kind: kind, Input: string(input), InputB64: base64.StdEncoding.EncodeToString(input), Notes: notes}
	if prev != nil {
		c.PrevB64 = base64.StdEncoding.EncodeToString(prev)
	}
	return c
}

func (c Case) bytes() (input, prev []byte) {
	input, _ = base64.StdEncoding.DecodeString(c.InputB64)
	if c.InputB64 == "" {
		input = []byte(c.Input)
	}
	if c.PrevB64 != "" {
		prev, _ = base64.StdEncoding.DecodeString(c.PrevB64)
	}
	return
}

// ---------------------------------------------------------------- position oracle

// posTable gives, for every byte offset 0..len(input), the line (1-based) and the column
// (0-based, in code points) of the code point that contains the byte. It is computed from the
// bytes alone: line = 1 + number of '\n' before the code point; column = number of code points
// that start earlier on the same line; an invalid byte counts as one code point.
type posTable struct {
	line, col []int32
}

func newPosTable(input []byte) posTable {
	n := len(input)
	pt := posTable{line: make([]int32, n+1), col: make([]int32, n+1)}
	line, col := int32(1), int32(0)
	for i := 0; i < n; {
		r, w := utf8.DecodeRune(input[i:])
		if w <= 0 {
			w = 1
		}
		for k := 0; k < w; k++ {
			pt.line[i+k], pt.col[i+k] = line, col
		}
		if r == '\n' {
			line++
			col = 0
		} else {
			col++
		}
		i += w
	}
	pt.line[n], pt.col[n] = line, col
	return pt
}

func (pt posTable) check(p ast.Position) string {
	if p.Offset < 0 || p.Offset >= len(pt.line) {
		return fmt.Sprintf("offset %d outside [0,%d]", p.Offset, len(pt.line)-1)
	}
	if int32(p.Line) != pt.line[p.Offset] || int32(p.Column) != pt.col[p.Offset] {
		return fmt.Sprintf("offset %d reported at line %d column %d, recomputed line %d column %d",
			p.Offset, p.Line, p.Column, pt.line[p.Offset], pt.col[p.Offset])
	}
	return ""
}

// ---------------------------------------------------------------- guarded calls

type parseResult struct {
	Program *ast.Program
	Err     error
	Panic   any
}

func parseGuarded(src []byte) (res parseResult) {
	defer func() {
		if r := recover(); r != nil {
			res.Panic = r
		}
	}()
	res.Program, res.Err = parser.ParseProgram(nil, src, parser.Config{})
	return
}

// ---------------------------------------------------------------- AST comparison

var posKey = regexp.MustCompile(`(Pos|Range)$`)

// stripAST removes every position-bearing key (…Pos, …Range) and the comment/doc-string keys from a
// decoded AST JSON value.
func stripAST(v any) any {
	switch x := v.(type) {
	case map[string]any:
		out := make(map[string]any, len(x))
		for k, val := range x {
			if posKey.MatchString(k) || k == "DocString" || k == "Comments" {
				continue
			}
			out[k] = stripAST(val)
		}
		return out
	case []any:
		out := make([]any, len(x))
		for i := range x {
			out[i] = stripAST(x[i])
		}
		return out
	}
	return v
}

// astJSON returns the stripped AST of a program as a decoded JSON value.
func astJSON(p *ast.Program) (v any, err error) {
	defer func() {
		if r := recover(); r != nil {
			err = fmt.Errorf("json.Marshal(program) panicked: %v", r)
		}
	}()
	b, err := json.Marshal(p)
	if err != nil {
		return nil, err
	}
	dec := json.NewDecoder(bytes.NewReader(b))
	dec.UseNumber()
	if err := dec.Decode(&v); err != nil {
		return nil, err
	}
	return stripAST(v), nil
}

func canon(v any) string {
	b, _ := json.Marshal(v) // map keys are sorted by encoding/json
	return string(b)
}

// firstDiff describes the first difference of two decoded JSON values (path, a, b).
func firstDiff(path string, a, b any) string {
	switch x := a.(type) {
	case map[string]any:
		y, ok := b.(map[string]any)
		if !ok {
			return fmt.Sprintf("%s: %s vs %s", path, short(a), short(b))
		}
		keys := map[string]bool{}
		for k := range x {
			keys[k] = true
		}
		for k := range y {
			keys[k] = true
		}
		ks := make([]string, 0, len(keys))
		for k := range keys {
			ks = append(ks, k)
		}
		sort.Strings(ks)
		for _, k := range ks {
			xv, xo := x[k]
			yv, yo := y[k]
			if (!xo && yv == nil) || (!yo && xv == nil) {
				continue // an omitted key and an explicit null are the same AST
			}
			if !xo || !yo {
				return fmt.Sprintf("%s.%s: present %v vs %v (%s | %s)", path, k, xo, yo, short(xv), short(yv))
			}
			if d := firstDiff(path+"."+k, xv, yv); d != "" {
				return d
			}
		}
		return ""
	case []any:
		y, ok := b.([]any)
		if !ok {
			return fmt.Sprintf("%s: %s vs %s", path, short(a), short(b))
		}
		if len(x) != len(y) {
			return fmt.Sprintf("%s: length %d vs %d (%s | %s)", path, len(x), len(y), short(a), short(b))
		}
		for i := range x {
			if d := firstDiff(fmt.Sprintf("%s[%d]", path, i), x[i], y[i]); d != "" {
				return d
			}
		}
		return ""
	}
	if canon(a) != canon(b) {
		return fmt.Sprintf("%s: %s vs %s", path, short(a), short(b))
	}
	return ""
}

func short(v any) string {
	s := canon(v)
	if len(s) > 160 {
		s = s[:160] + "…"
	}
	return s
}

// astStats walks a stripped AST and returns its depth and the set of node kinds ("Type" values).
func astStats(v any, kinds map[string]int) int {
	switch x := v.(type) {
	case map[string]any:
		d := 0
		if t, ok := x["Type"].(string); ok {
			kinds[t]++
			d = 1
		}
		m := 0
		for _, val := range x {
			if c := astStats(val, kinds); c > m {
				m = c
			}
		}
		return d + m
	case []any:
		m := 0
		for _, val := range x {
			if c := astStats(val, kinds); c > m {
				m = c
			}
		}
		return m
	}
	return 0
}

// ---------------------------------------------------------------- corpus

var (
	harvestOnce sync.Once
	harvested   []string
)

// harvest returns the Cadence snippets found in the repository's own tests (read-only, sorted).
func harvest() []string {
	harvestOnce.Do(func() {
		root := repoRoot()
		if root == "" {
			return
		}
		dirs := []string{"parser", "sema", "interpreter", "runtime", "formatter"}
		for i := range dirs {
			dirs[i] = filepath.Join(root, dirs[i])
		}
		harvested = srcgen.Harvest(dirs, 20000)
	})
	return harvested
}

// repoRoot finds the cadence checkout the module is built against (the `replace` target).
func repoRoot() string {
	if r := os.Getenv("VERIF_REPO"); r != "" {
		return r
	}
	// the replace directive of the go.mod in use
	for _, gm := range []string{os.Getenv("VERIF_GOMOD"), filepath.Join(os.Getenv("VERIF_ROOT"), "go.mod"), "/verif/go.mod"} {
		if gm == "" {
			continue
		}
		b, err := os.ReadFile(gm)
		if err != nil {
			continue
		}
		for _, l := range strings.Split(string(b), "\n") {
			if strings.HasPrefix(l, "replace github.com/onflow/cadence =>") {
				return strings.TrimSpace(strings.TrimPrefix(l, "replace github.com/onflow/cadence =>"))
			}
		}
	}
	return "/repo"
}

// hasNestedTemplateString reports whether a string literal starts inside a string-template
// expression (`"\(a + "x")"`). Independent scan over the bytes (predicate of finding FS1).
func hasNestedTemplateString(src []byte) bool {
	type frame struct{ parens int }
	var stack []frame // one frame per open template expression
	inString := false
	for i := 0; i < len(src); i++ {
		c := src[i]
		if inString {
			switch {
			case c == '\\' && i+1 < len(src) && src[i+1] == '(':
				stack = append(stack, frame{parens: 1})
				inString = false
				i++
			case c == '\\':
				i++
			case c == '"' || c == '\n':
				inString = false
			}
			continue
		}
		switch c {
		case '"':
			if len(stack) > 0 {
				return true
			}
			inString = true
		case '(':
			if len(stack) > 0 {
				stack[len(stack)-1].parens++
			}
		case ')':
			if len(stack) > 0 {
				stack[len(stack)-1].parens--
				if stack[len(stack)-1].parens == 0 {
					stack = stack[:len(stack)-1]
					inString = true
				}
			}
		}
	}
	return false
}

// ---------------------------------------------------------------- shrinking (non-rapid checks)

// shrinkBytes greedily minimises input while fails(input) keeps returning true: chunk deletion with
// halving chunk sizes (ddmin style), bounded by a step budget. Deterministic.
func shrinkBytes(input []byte, fails func([]byte) bool, budget int) []byte {
	cur := append([]byte(nil), input...)
	steps := 0
	for chunk := len(cur) / 2; chunk >= 1; {
		progress := false
		for start := 0; start+chunk <= len(cur) && steps < budget; {
			cand := append(append([]byte(nil), cur[:start]...), cur[start+chunk:]...)
			steps++
			if fails(cand) {
				cur = cand
				progress = true
			} else {
				start += chunk
			}
		}
		if steps >= budget {
			break
		}
		if !progress || chunk > len(cur) {
			chunk /= 2
		}
		if chunk > len(cur)/2 && len(cur) > 1 {
			chunk = len(cur) / 2
		}
	}
	return cur
}

// shrinkStructured complements shrinkBytes with bracket-aware deletions: whole balanced groups, their
// contents, single lines, comments and words; repeated to a fixed point (bounded).
func shrinkStructured(input []byte, fails func([]byte) bool, budget int) []byte {
	cur := append([]byte(nil), input...)
	steps := 0
	try := func(cand []byte) bool {
		if steps >= budget || len(cand) >= len(cur) {
			return false
		}
		steps++
		if fails(cand) {
			cur = cand
			return true
		}
		return false
	}
	cut := func(i, j int) []byte { // remove [i,j)
		return append(append([]byte(nil), cur[:i]...), cur[j:]...)
	}
	match := func(i int) int {
		open := cur[i]
		var cl byte
		switch open {
		case '(':
			cl = ')'
		case '[':
			cl = ']'
		case '{':
			cl = '}'
		case '<':
			cl = '>'
		default:
			return -1
		}
		d := 0
		for j := i; j < len(cur); j++ {
			if cur[j] == open {
				d++
			} else if cur[j] == cl {
				d--
				if d == 0 {
					return j
				}
			}
		}
		return -1
	}
	for round := 0; round < 20 && steps < budget; round++ {
		before := len(cur)
		for i := 0; i < len(cur) && steps < budget; i++ {
			c := cur[i]
			switch {
			case c == '(' || c == '[' || c == '{' || c == '<':
				if j := match(i); j > i {
					if try(cut(i, j+1)) || (j > i+1 && try(cut(i+1, j))) {
						i--
					}
				}
			case c == '/' && i+1 < len(cur) && cur[i+1] == '*':
				if j := bytes.Index(cur[i+2:], []byte("*/")); j >= 0 && try(cut(i, i+2+j+2)) {
					i--
				}
			case c == '/' && i+1 < len(cur) && cur[i+1] == '/':
				j := bytes.IndexByte(cur[i:], '\n')
				if j < 0 {
					j = len(cur) - i
				}
				if try(cut(i, i+j)) {
					i--
				}
			case isWord(c) && (i == 0 || !isWord(cur[i-1])):
				j := i
				for j < len(cur) && isWord(cur[j]) {
					j++
				}
				if !try(cut(i, j)) && j-i > 1 {
					cand := append(append(append([]byte(nil), cur[:i]...), 'a'), cur[j:]...)
					try(cand)
				}
			}
		}
		// lines
		for _, sep := range []byte{'\n', ';'} {
			start := 0
			for start < len(cur) && steps < budget {
				k := bytes.IndexByte(cur[start:], sep)
				end := len(cur)
				if k >= 0 {
					end = start + k + 1
				}
				if !try(cut(start, end)) {
					start = end
				}
				if k < 0 {
					break
				}
			}
		}
		cur = shrinkBytes(cur, func(b []byte) bool {
			if steps >= budget {
				return false
			}
			steps++
			return fails(b)
		}, 400)
		if len(cur) == before {
			break
		}
	}
	return cur
}

func isWord(c byte) bool {
	return c == '_' || c >= '0' && c <= '9' || c >= 'a' && c <= 'z' || c >= 'A' && c <= 'Z'
}

// msgClass is the part of a violation message that identifies its kind (text before the first digit run / detail).
func msgClass(msg string) string {
	if i := strings.IndexAny(msg, "0123456789"); i > 12 {
		msg = msg[:i]
	}
	if len(msg) > 60 {
		msg = msg[:60]
	}
	return msg
}
