package syntax

import (
	"math/rand"
	"testing"

	"verif/lib/evid"
	"verif/lib/srcgen"
)

// FuzzC37 is the native coverage-guided variant of TestC37 (thorough tier only): the same oracle on raw bytes,
// seeded with generated programs, stress inputs and repository snippets.
func FuzzC37(f *testing.F) {
	r := rand.New(rand.NewSource(37))
	g := srcgen.New(r, srcgen.DefaultConfig())
	for i := 0; i < 40; i++ {
		f.Add([]byte(srcgen.Join(g.Program().Toks)))
		s, _ := srcgen.Nasty(r)
		if len(s) < 4000 {
			f.Add([]byte(s))
		}
	}
	corpus := harvest()
	for i := 0; i < len(corpus); i += 97 {
		f.Add([]byte(corpus[i]))
	}
	for _, p := range dirtyPrev {
		f.Add([]byte(p))
	}
	rec := evid.Start(f, "C37", "native fuzzing of the C37 oracle")
	st := &c37State{rec: rec, knownFS1: rec.Known("FS1"), knownFS2: rec.Known("FS2"), knownFS4: rec.Known("FS4"), knownFS5: rec.Known("FS5"), knownFS42: rec.Known("FS42")}
	f.Fuzz(func(t *testing.T, data []byte) {
		if len(data) > 1<<16 {
			return
		}
		c := mkCase("fuzz", data, []byte(dirtyPrev[len(data)%len(dirtyPrev)]), nil)
		if msg := st.one(c, "fuzz"); msg != "" {
			t.Fatalf("C37 violated: %s\ninput: %q", msg, data)
		}
	})
}
