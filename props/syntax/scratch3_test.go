package syntax

import (
	"bufio"
	"fmt"
	"os"
	"testing"
)

// TestScratch38: SCRATCH_SRC file with one source per line; prints the printed form and verdict.
func TestScratch38(t *testing.T) {
	f := os.Getenv("SCRATCH_SRC")
	if f == "" {
		t.Skip()
	}
	fh, _ := os.Open(f)
	sc := bufio.NewScanner(fh)
	for sc.Scan() {
		src := sc.Text()
		msg, info := roundTrip([]byte(src), false)
		fmt.Printf("SRC: %s\n  PRINTED: %q\n  parsed=%v %s\n  VERDICT: %s\n", src, info.printed, info.parsed, info.rejectMsg, msg)
	}
}
