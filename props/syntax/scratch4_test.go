package syntax

import (
	"fmt"
	"os"
	"strings"
	"testing"
)

// TestScratch39: SCRATCH_SRC file, sources separated by "----" lines; options from env SCRATCH_W (width), SCRATCH_SV (skipverify)
func TestScratch39(t *testing.T) {
	f := os.Getenv("SCRATCH_SRC")
	if f == "" {
		t.Skip()
	}
	b, _ := os.ReadFile(f)
	o := Options{LineWidth: 80, IndentCharacter: " ", IndentCount: 4, SortImports: false, StripSemicolons: true, KeepBlankLines: 1, SkipVerify: os.Getenv("SCRATCH_SV") != ""}
	if os.Getenv("SCRATCH_W") != "" {
		fmt.Sscan(os.Getenv("SCRATCH_W"), &o.LineWidth)
	}
	for _, src := range strings.Split(string(b), "----\n") {
		out, err, p := formatGuarded([]byte(src), o)
		fmt.Printf("SRC:\n%s\nOUT (err=%v panic=%v):\n%s\n", src, err, p, out)
		if err == nil {
			out2, err2, _ := formatGuarded(out, o)
			if string(out2) != string(out) {
				fmt.Printf("OUT2 (err=%v):\n%s\n", err2, out2)
			}
		}
		msg, _ := formatOracle([]byte(src), o)
		fmt.Printf("VERDICT: %s\n=========\n", msg)
	}
}
