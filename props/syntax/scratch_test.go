package syntax

import (
	"encoding/base64"
	"encoding/json"
	"fmt"
	"os"
	"testing"

	"verif/lib/evid"
)

// TestScratch: SCRATCH_REPLAY=<replay json> shrinks a C37 replay case further and prints it.
func TestScratch(t *testing.T) {
	f := os.Getenv("SCRATCH_REPLAY")
	if f == "" {
		t.Skip()
	}
	var c Case
	if err := evid.LoadReplay(f, &c); err != nil {
		src, _ := os.ReadFile(f)
		c = mkCase("scratch", src, nil, nil)
	}
	rec0 := evid.Start(t, "C37", "")
	st := &c37State{rec: rec0, t: t, knownFS1: rec0.Known("FS1"), knownFS2: rec0.Known("FS2"), knownFS4: rec0.Known("FS4"), knownFS5: rec0.Known("FS5")}
	input, prev := c.bytes()
	msg := st.quiet(c, "replay")
	fmt.Println("MSG:", msg)
	if msg == "" {
		return
	}
	cls := msgClass(msg)
	small := shrinkStructured(input, func(b []byte) bool {
		m := st.quiet(mkCase("replay", b, prev, nil), "replay")
		return m != "" && msgClass(m) == cls
	}, 200000)
	fmt.Printf("SHRUNK (%d bytes): %q\n%s\n", len(small), small, small)
	fmt.Println("MSG:", st.quiet(mkCase("replay", small, prev, nil), "replay"))
	b, _ := json.Marshal(base64.StdEncoding.EncodeToString(small))
	_ = b
}
