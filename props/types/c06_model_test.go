package types

import (
	"fmt"
	"strings"

	"github.com/onflow/cadence/ast"
	"github.com/onflow/cadence/sema"
)

// ---- denotational model of authorizations over a universe of 4 entitlements ----------
//
// A holder is characterised by the set H ⊆ U of entitlements it actually holds
// (a 4-bit mask, 16 possible holders). An authorization denotes the set D of
// holders compatible with it (a 16-bit mask over holders):
//
//	conjunction S : S ⊆ H          disjunction S : H ∩ S ≠ ∅
//	unauthorized  : every H        access(self)  : no H (nobody outside may use it)
//
// `required.PermitsAccess(held)`  ⇔  D(held) ⊆ D(required).

const nEnt = 4

type mAuth struct {
	Kind int   // 0 unauthorized, 1 conjunction, 2 disjunction, 3 access(self)
	Set  uint8 // entitlement mask (non-zero for kinds 1, 2)
}

const (
	kUnauth = iota
	kConj
	kDisj
	kSelf
)

func (a mAuth) D() uint16 {
	switch a.Kind {
	case kUnauth:
		return 0xffff
	case kSelf:
		return 0
	}
	var d uint16
	for h := 0; h < 16; h++ {
		ok := false
		if a.Kind == kConj {
			ok = uint8(h)&a.Set == a.Set
		} else {
			ok = uint8(h)&a.Set != 0
		}
		if ok {
			d |= 1 << h
		}
	}
	return d
}

// leq: every holder compatible with a is compatible with b (a grants at least what b grants).
func leq(a, b mAuth) bool { return a.D()&^b.D() == 0 }

func (a mAuth) String() string {
	switch a.Kind {
	case kUnauth:
		return "unauthorized"
	case kSelf:
		return "access(self)"
	}
	var parts []string
	for i := 0; i < nEnt; i++ {
		if a.Set&(1<<i) != 0 {
			parts = append(parts, fmt.Sprintf("E%d", i))
		}
	}
	sep := ", "
	if a.Kind == kDisj {
		sep = " | "
	}
	return "auth(" + strings.Join(parts, sep) + ")"
}

// Source renders the entitlement list for `auth(...)` / `access(...)`, "" for unauthorized.
func (a mAuth) List(qual string) string {
	var parts []string
	for i := 0; i < nEnt; i++ {
		if a.Set&(1<<i) != 0 {
			parts = append(parts, fmt.Sprintf("%sE%d", qual, i))
		}
	}
	sep := ", "
	if a.Kind == kDisj {
		sep = " | "
	}
	return strings.Join(parts, sep)
}

// RefPrefix renders "auth(...) " or "".
func (a mAuth) RefPrefix(qual string) string {
	if a.Kind == kUnauth {
		return ""
	}
	return "auth(" + a.List(qual) + ") "
}

// allAuths: unauthorized + 15 conjunctions + 15 disjunctions (single-element
// disjunctions are kept: they are distinct values for the API although they
// denote the same holders as the conjunction).
func allAuths() []mAuth {
	out := []mAuth{{Kind: kUnauth}}
	for s := uint8(1); s < 16; s++ {
		out = append(out, mAuth{kConj, s})
	}
	for s := uint8(1); s < 16; s++ {
		out = append(out, mAuth{kDisj, s})
	}
	return out
}

// mMap is a mapping over the universe: rel bit (4*i+j) set ⇔ Ei -> Ej.
type mMap struct {
	Rel      uint16
	Identity bool
}

func (m mMap) img(e int) uint8 {
	v := uint8(m.Rel>>(4*e)) & 0xf
	if m.Identity {
		v |= 1 << e
	}
	return v
}

// apply: what a holder of exactly H holds after going through the map.
func (m mMap) apply(h uint8) uint8 {
	var out uint8
	for e := 0; e < nEnt; e++ {
		if h&(1<<e) != 0 {
			out |= m.img(e)
		}
	}
	return out
}

func (m mMap) union(o mMap) mMap { return mMap{Rel: m.Rel | o.Rel, Identity: m.Identity || o.Identity} }

func (m mMap) String() string {
	var parts []string
	if m.Identity {
		parts = append(parts, "include Identity")
	}
	for i := 0; i < nEnt; i++ {
		for j := 0; j < nEnt; j++ {
			if m.Rel&(1<<(4*i+j)) != 0 {
				parts = append(parts, fmt.Sprintf("E%d -> E%d", i, j))
			}
		}
	}
	return "{" + strings.Join(parts, "; ") + "}"
}

// Body renders the mapping body lines.
func (m mMap) Body(qual string) string {
	var sb strings.Builder
	if m.Identity {
		sb.WriteString("include Identity\n")
	}
	for i := 0; i < nEnt; i++ {
		for j := 0; j < nEnt; j++ {
			if m.Rel&(1<<(4*i+j)) != 0 {
				fmt.Fprintf(&sb, "%sE%d -> %sE%d\n", qual, i, qual, j)
			}
		}
	}
	return sb.String()
}

// imageSound: every holder compatible with `in`, after the map, is compatible with `out`.
func imageSound(m mMap, in, out mAuth) (bool, uint8) {
	d, dout := in.D(), out.D()
	for h := 0; h < 16; h++ {
		if d&(1<<h) != 0 && dout&(1<<m.apply(uint8(h))) == 0 {
			return false, uint8(h)
		}
	}
	return true, 0
}

// ---- bridge to sema ---------------------------------------------------------------------

type semaEnts [nEnt]*sema.EntitlementType

func (es semaEnts) access(a mAuth, rotate int) sema.Access {
	switch a.Kind {
	case kUnauth:
		return sema.UnauthorizedAccess
	case kSelf:
		return sema.PrimitiveAccess(ast.AccessSelf)
	}
	var list []*sema.EntitlementType
	for k := 0; k < nEnt; k++ {
		i := (k + rotate) % nEnt
		if rotate < 0 {
			i = nEnt - 1 - k
		}
		if a.Set&(1<<i) != 0 {
			list = append(list, es[i])
		}
	}
	kind := sema.Conjunction
	if a.Kind == kDisj {
		kind = sema.Disjunction
	}
	return sema.NewEntitlementSetAccess(list, kind)
}

// decode maps a sema access back into the model; ok=false when it mentions an
// entitlement outside the universe or is of an unexpected kind.
func (es semaEnts) decode(a sema.Access) (mAuth, bool) {
	switch a := a.(type) {
	case sema.PrimitiveAccess:
		switch a {
		case sema.UnauthorizedAccess:
			return mAuth{Kind: kUnauth}, true
		case sema.PrimitiveAccess(ast.AccessSelf):
			return mAuth{Kind: kSelf}, true
		}
		return mAuth{}, false
	case sema.EntitlementSetAccess:
		out := mAuth{Kind: kConj}
		if a.SetKind == sema.Disjunction {
			out.Kind = kDisj
		}
		ok := true
		a.Entitlements.Foreach(func(k *sema.EntitlementType, _ struct{}) {
			found := false
			for i, e := range es {
				if e == k || e.Equal(k) {
					out.Set |= 1 << i
					found = true
				}
			}
			if !found {
				ok = false
			}
		})
		if out.Set == 0 {
			return mAuth{}, false
		}
		return out, ok
	}
	return mAuth{}, false
}

func (es semaEnts) mapType(m mMap, name string) *sema.EntitlementMapType {
	t := sema.NewEntitlementMapType(nil, es[0].Location, name)
	t.IncludesIdentity = m.Identity
	for i := 0; i < nEnt; i++ {
		for j := 0; j < nEnt; j++ {
			if m.Rel&(1<<(4*i+j)) != 0 {
				t.Relations = append(t.Relations, sema.EntitlementRelation{Input: es[i], Output: es[j]})
			}
		}
	}
	return t
}
