package types

import (
	"errors"
	"fmt"
	"math/rand"
	"os"
	"sort"
	"strings"
	"testing"

	"github.com/onflow/cadence"
	"github.com/onflow/cadence/ast"
	"github.com/onflow/cadence/common"
	"github.com/onflow/cadence/interpreter"
	"github.com/onflow/cadence/sema"

	"verif/lib/evid"
	"verif/lib/host"
	"verif/lib/tgen"
)

// c06Case is the replay format of C06.
type c06Case struct {
	Part string `json:"part"` // "permits" | "intersect" | "image" | "image-include" | "program" | "container"
	A    *mAuth `json:"a,omitempty"`
	B    *mAuth `json:"b,omitempty"`
	Map  *mMap  `json:"map,omitempty"`
	// include chains: maps[i] includes maps[i-1]
	Chain []mMap `json:"chain,omitempty"`
	// programs
	Seed  int64  `json:"seed,omitempty"`
	Level string `json:"level,omitempty"`
	Chn   string `json:"chain_expr,omitempty"`
	Note  string `json:"note,omitempty"`
}

type c06 struct {
	t    *testing.T
	rec  *evid.Rec
	ents semaEnts
	auth []mAuth
	u    *tgen.Universe // universe of ents (nil in sub-checkers that never ask the run-time side)
}

func newC06(t *testing.T, rec *evid.Rec) *c06 {
	// the 4-entitlement universe is a checked program, so that the run-time side
	// (static authorizations, resolved through a type converter) can be asked too
	var sb strings.Builder
	for i := 0; i < nEnt; i++ {
		fmt.Fprintf(&sb, "access(all) entitlement E%d\n", i)
	}
	u, err := tgen.BuildUniverse(-2, []*tgen.Program{{Location: common.StringLocation("c06"), Name: "c06", Source: sb.String()}})
	if err != nil {
		t.Fatalf("entitlement universe: %v", err)
	}
	var es semaEnts
	for _, e := range u.Entitlements {
		var i int
		fmt.Sscanf(e.Identifier, "E%d", &i)
		es[i] = e
	}
	return &c06{t: t, rec: rec, ents: es, auth: allAuths(), u: u}
}

// ---------------------------------------------------------------- part A: algebra

func (c *c06) permitsCase(req, held mAuth, rot int) {
	want := leq(held, req)
	var got bool
	p := guard(func() { got = c.ents.access(req, rot).PermitsAccess(c.ents.access(held, -rot)) })
	nt := req.Kind == kDisj || held.Kind == kDisj
	c.rec.CaseH(nt, evid.Hash("permits", req, held))
	c.rec.Class(fmt.Sprintf("permits/%d-%d/%v", req.Kind, held.Kind, want))
	if nt && c.rec.WantSample(fmt.Sprintf("permits/%d%d%v", req.Kind, held.Kind, want)) {
		c.rec.Sample(fmt.Sprintf("permits/%d%d%v", req.Kind, held.Kind, want), map[string]any{"required": req.String(), "held": held.String(), "permits": want})
	}
	if p != "" || got != want {
		c.rec.Violation(c.t, c06Case{Part: "permits", A: &req, B: &held}, "(%s).PermitsAccess(%s) = %v %s, set semantics say %v", req, held, got, p, want)
	}
	// reference subtyping is the same relation, in the checker and on static types
	if req.Kind != kSelf && held.Kind != kSelf {
		sub := sema.NewReferenceType(nil, c.ents.access(held, rot), sema.IntType)
		sup := sema.NewReferenceType(nil, c.ents.access(req, 0), sema.IntType)
		var g1, g2 bool
		g3, g4 := want, want
		p := guard(func() {
			g1 = sema.IsSubTypeWithoutComparison(sub, sup)
			g2 = sema.CheckSubTypeWithoutEquality_gen(sub, sup) || sub.Equal(sup)
			if c.u != nil {
				ssub, ssup := tgen.Static(sub).(*interpreter.ReferenceStaticType), tgen.Static(sup).(*interpreter.ReferenceStaticType)
				g3 = interpreter.IsSubType(c.u.Inter, ssub, ssup)
				g4 = interpreter.PermitsAccess(c.u.Inter, ssup.Authorization, ssub.Authorization)
			}
		})
		if p != "" || g1 != want || g2 != want || g3 != want || g4 != want {
			c.rec.Violation(c.t, c06Case{Part: "permits", A: &req, B: &held, Note: "reference subtyping"},
				"%s&Int <: %s&Int: checker hand-written %v, checker generated %v, interpreter.IsSubType on static types %v, interpreter.PermitsAccess %v %s, set semantics say %v",
				held.RefPrefix(""), req.RefPrefix(""), g1, g2, g3, g4, p, want)
		}
	}
}

func (c *c06) intersectCase(a, b mAuth, rot int) {
	var got sema.Access
	p := guard(func() { got = sema.IntersectAccess(c.ents.access(a, rot), c.ents.access(b, -rot)) })
	nt := a.Kind == kDisj || b.Kind == kDisj
	c.rec.CaseH(nt, evid.Hash("intersect", a, b))
	if p != "" {
		c.rec.Violation(c.t, c06Case{Part: "intersect", A: &a, B: &b}, "IntersectAccess(%s, %s) panicked: %s", a, b, p)
	}
	r, ok := c.ents.decode(got)
	if !ok {
		c.rec.Violation(c.t, c06Case{Part: "intersect", A: &a, B: &b}, "IntersectAccess(%s, %s) = %v is not an authorization over the inputs' entitlements", a, b, got)
	}
	exact := "weaker"
	if r.D() == a.D()|b.D() {
		exact = "exact"
	}
	c.rec.Class(fmt.Sprintf("intersect/%d-%d/%s", a.Kind, b.Kind, exact))
	if nt && c.rec.WantSample("intersect/"+exact) {
		c.rec.Sample("intersect/"+exact, map[string]any{"a": a.String(), "b": b.String(), "result": r.String()})
	}
	// never more than either source: every holder of a, and every holder of b, is a holder of r
	if !leq(a, r) || !leq(b, r) {
		c.rec.Violation(c.t, c06Case{Part: "intersect", A: &a, B: &b}, "IntersectAccess(%s, %s) = %s grants more than a source", a, b, r)
	}
}

// imageOf calls Image and decodes; err != "" for the unrepresentable-output error.
func (c *c06) imageOf(acc *sema.EntitlementMapAccess, in mAuth, rot int) (out mAuth, unrepresentable bool, problem string) {
	var got sema.Access
	var err error
	p := guard(func() { got, err = acc.Image(nil, c.ents.access(in, rot), ast.EmptyRange) })
	if p != "" {
		return out, false, "panic: " + p
	}
	if err != nil {
		var u *sema.UnrepresentableEntitlementMapOutputError
		if errors.As(err, &u) {
			return out, true, ""
		}
		return out, false, "unexpected error: " + err.Error()
	}
	r, ok := c.ents.decode(got)
	if !ok {
		return out, false, fmt.Sprintf("result %v is not an authorization over the universe", got)
	}
	return r, false, ""
}

// imageCases checks one map (model m, implementation acc) against all inputs:
// soundness of every image, and monotonicity over all ordered input pairs.
func (c *c06) imageCases(m mMap, acc *sema.EntitlementMapAccess, mk func(in mAuth) c06Case, rot int, leqTab [][]bool) {
	n := len(c.auth)
	outs := make([]mAuth, n)
	have := make([]bool, n)
	sizes := map[int]bool{}
	for e := 0; e < nEnt; e++ {
		sizes[popcount(m.img(e))] = true
	}
	mixed := len(sizes) > 1
	for i, in := range c.auth {
		out, unrep, problem := c.imageOf(acc, in, rot)
		nt := in.Kind == kDisj || mixed
		c.rec.CaseH(nt, evid.Hash("image", m, in))
		if problem != "" {
			c.rec.Violation(c.t, mk(in), "Image(%s, %s): %s", m, in, problem)
		}
		if unrep {
			c.rec.Class("image/unrepresentable")
			continue
		}
		outs[i], have[i] = out, true
		sound, h := imageSound(m, in, out)
		if !sound {
			c.rec.Violation(c.t, mk(in), "Image(%s, %s) = %s: a holder of exactly %s is compatible with the input, holds %s after the mapping, "+
				"which does not satisfy the result", m, in, out, mAuth{kConj, h}, mAuth{kConj, m.apply(h)})
		}
		cls := "image/" + [...]string{"unauth", "conj", "disj"}[in.Kind] + "->" + [...]string{"unauth", "conj", "disj"}[out.Kind]
		c.rec.Class(cls)
		if nt && c.rec.WantSample(cls) {
			c.rec.Sample(cls, map[string]any{"map": m.String(), "input": in.String(), "image": out.String()})
		}
	}
	// monotone: a grants at least b  ⇒  Image(a) grants at least Image(b)
	var monoPairs int64
	for i := 0; i < n; i++ {
		if !have[i] {
			continue
		}
		for j := 0; j < n; j++ {
			if i == j || !have[j] || !leqTab[i][j] {
				continue
			}
			monoPairs++
			if !leq(outs[i], outs[j]) {
				cs := mk(c.auth[i])
				b := c.auth[j]
				cs.B = &b
				c.rec.Violation(c.t, cs, "Image(%s) is not monotone: %s can be upcast to %s, but Image(%s) = %s is not at least Image(%s) = %s",
					m, c.auth[i], c.auth[j], c.auth[i], outs[i], c.auth[j], outs[j])
			}
		}
	}
	c.rec.Evals(monoPairs) // monotonicity pairs actually compared
}

func popcount(x uint8) int {
	n := 0
	for ; x != 0; x &= x - 1 {
		n++
	}
	return n
}

func (c *c06) leqTable() [][]bool {
	n := len(c.auth)
	t := make([][]bool, n)
	for i := range t {
		t[i] = make([]bool, n)
		for j := range t[i] {
			t[i][j] = leq(c.auth[i], c.auth[j])
		}
	}
	return t
}

func (c *c06) partA() {
	withSelf := append(append([]mAuth{}, c.auth...), mAuth{Kind: kSelf})
	for _, a := range withSelf {
		for _, b := range withSelf {
			for rot := 0; rot < 2; rot++ {
				c.permitsCase(a, b, rot)
			}
		}
	}
	for _, a := range c.auth {
		for _, b := range c.auth {
			for rot := 0; rot < 2; rot++ {
				c.intersectCase(a, b, rot)
			}
		}
	}
	// Image: every relation set over the universe, with and without identity. The
	// space (2 * 65536 maps x 31 inputs) is split over shards; quick covers it
	// completely with VERIF_SCALE >= 1.
	leqTab := c.leqTable()
	// quick: all 65536 relation sets without identity, and every 16th with identity
	// (offset by the seed); thorough: everything. VERIF_SCALE < 1 thins both.
	total := 1 << 17
	limit := evid.N(total, total)
	stride := 1
	if limit < total {
		stride = total / limit
	}
	start := 0
	if stride > 1 {
		start = int(evid.Seed() % int64(stride))
	}
	idStride := 1
	if !evid.Thorough() {
		idStride = 16
	}
	idOffset := int(evid.Seed() % int64(idStride))
	count := 0
	for k := start + evid.Shard()*stride; k < total; k += stride * evid.Shards() {
		if k>>16 == 1 && (k/stride)%idStride != idOffset {
			continue
		}
		m := mMap{Rel: uint16(k & 0xffff), Identity: k>>16 == 1}
		acc := sema.NewEntitlementMapAccess(c.ents.mapType(m, "M"))
		mm := m
		c.imageCases(m, acc, func(in mAuth) c06Case { return c06Case{Part: "image", A: &in, Map: &mm} }, k%3, leqTab)
		count++
	}
	c.rec.Extra("image_maps_enumerated", count)
	if stride == 1 {
		what := "all 65536 relation sets without identity and every 16th with identity"
		if idStride == 1 {
			what = "all 2*65536 relation sets (with/without identity)"
		}
		c.rec.Extra("exhaustive_subspaces", "PermitsAccess and IntersectAccess on all ordered pairs of the 31 authorizations (+ access(self) for PermitsAccess); "+
			"Image soundness and monotonicity for "+what+" x 31 inputs (merged over shards)")
	}
}

// includeChains checks mappings whose relations come (partly) through `include`
// chains resolved by the checker.
func (c *c06) includeChains(n int) {
	r := evid.Rand(606)
	leqTab := c.leqTable()
	const perProgram = 40
	for done := 0; done < n; done += perProgram {
		var sb strings.Builder
		for i := 0; i < nEnt; i++ {
			fmt.Fprintf(&sb, "access(all) entitlement E%d\n", i)
		}
		var chains [][]mMap
		for k := 0; k < perProgram; k++ {
			chain := make([]mMap, 3)
			for l := range chain {
				nrel := r.Intn(4)
				for x := 0; x < nrel; x++ {
					chain[l].Rel |= 1 << r.Intn(16)
				}
				chain[l].Identity = r.Intn(4) == 0
				fmt.Fprintf(&sb, "access(all) entitlement mapping M%d_%d {\n", k, l)
				if l > 0 {
					fmt.Fprintf(&sb, "include M%d_%d\n", k, l-1)
				}
				sb.WriteString(chain[l].Body(""))
				sb.WriteString("}\n")
			}
			chains = append(chains, chain)
		}
		u, err := tgen.BuildUniverse(-1, []*tgen.Program{{Location: common.StringLocation("c06inc"), Name: "c06inc", Source: sb.String()}})
		if err != nil {
			c.rec.Inconclusive(c.t, "include-chain program does not check: %v", err)
		}
		var es semaEnts
		byName := map[string]*sema.EntitlementMapType{}
		for _, e := range u.Entitlements {
			var i int
			fmt.Sscanf(e.Identifier, "E%d", &i)
			es[i] = e
		}
		for _, m := range u.Mappings {
			byName[m.Identifier] = m
		}
		cc := &c06{t: c.t, rec: c.rec, ents: es, auth: c.auth}
		for k, chain := range chains {
			eff := mMap{}
			for l := range chain {
				eff = eff.union(chain[l])
				mt := byName[fmt.Sprintf("M%d_%d", k, l)]
				if mt == nil {
					c.t.Fatalf("mapping M%d_%d not found", k, l)
				}
				prefix := append([]mMap{}, chain[:l+1]...)
				cc.rec.Class(fmt.Sprintf("image-include/depth%d", l))
				cc.imageCases(eff, sema.NewEntitlementMapAccess(mt),
					func(in mAuth) c06Case { return c06Case{Part: "image-include", A: &in, Chain: prefix} }, l, leqTab)
			}
		}
	}
}

// ---------------------------------------------------------------- part B: programs

// leaf functions of struct T: name, required access
type leafFn struct {
	name string
	req  mAuth
}

func leafFns() []leafFn {
	out := []leafFn{{"anyone", mAuth{Kind: kUnauth}}}
	for i := 0; i < nEnt; i++ {
		out = append(out, leafFn{fmt.Sprintf("f%d", i), mAuth{kConj, 1 << i}})
	}
	for s := uint8(1); s < 16; s++ {
		if popcount(s) == 2 {
			out = append(out, leafFn{fmt.Sprintf("c%d", s), mAuth{kConj, s}}, leafFn{fmt.Sprintf("d%d", s), mAuth{kDisj, s}})
		}
	}
	out = append(out, leafFn{"c7", mAuth{kConj, 7}}, leafFn{"d14", mAuth{kDisj, 14}})
	return out
}

type entUniverse struct {
	seed   int64
	maps   []mMap // M0..M3 (effective relations)
	oMap   int    // mapping used by O.s
	source string
}

func genEntUniverse(seed int64) *entUniverse {
	r := rand.New(rand.NewSource(seed*7907 + 3))
	u := &entUniverse{seed: seed}
	// M0 is always the F1 shape (one input mapped, the others not)
	u.maps = append(u.maps, mMap{Rel: 1 << (4*0 + 2)})
	for k := 1; k < 4; k++ {
		var m mMap
		n := 1 + r.Intn(5)
		for x := 0; x < n; x++ {
			m.Rel |= 1 << r.Intn(16)
		}
		m.Identity = r.Intn(4) == 0
		u.maps = append(u.maps, m)
	}
	u.oMap = r.Intn(4)
	var sb strings.Builder
	sb.WriteString("access(all) contract C {\n")
	for i := 0; i < nEnt; i++ {
		fmt.Fprintf(&sb, "    access(all) entitlement E%d\n", i)
	}
	for k, m := range u.maps {
		fmt.Fprintf(&sb, "    access(all) entitlement mapping M%d {\n%s    }\n", k, m.Body(""))
	}
	sb.WriteString("    access(all) struct T {\n")
	for i, f := range leafFns() {
		acc := "all"
		if f.req.Kind != kUnauth {
			acc = f.req.List("")
		}
		fmt.Fprintf(&sb, "        access(%s) fun %s(): Int { return %d }\n", acc, f.name, 100+i)
	}
	sb.WriteString("    }\n")
	sb.WriteString("    access(all) struct S {\n")
	for k := range u.maps {
		fmt.Fprintf(&sb, "        access(mapping M%d) let t%d: T\n", k, k)
		// an optional mapped field per mapping (the checker only allows `access(mapping ...)` on fields)
		fmt.Fprintf(&sb, "        access(mapping M%d) let o%d: T?\n", k, k)
	}
	sb.WriteString("        access(mapping M1) let opt: T?\n")
	sb.WriteString("        access(E1) let plain: T\n")
	sb.WriteString("        access(all) let pubT: T\n")
	sb.WriteString("        access(all) let r12: auth(E1, E2) &T\n")
	sb.WriteString("        access(all) let rd: auth(E0 | E3) &T\n")
	sb.WriteString("        init(_ r: auth(E0, E1, E2, E3) &T) {\n")
	for k := range u.maps {
		fmt.Fprintf(&sb, "            self.t%d = T()\n            self.o%d = T()\n", k, k)
	}
	sb.WriteString("            self.opt = T()\n            self.plain = T()\n            self.pubT = T()\n            self.r12 = r\n            self.rd = r\n        }\n    }\n")
	sb.WriteString("    access(all) struct O {\n")
	fmt.Fprintf(&sb, "        access(mapping M%d) let s: S\n", u.oMap)
	sb.WriteString("        init(_ r: auth(E0, E1, E2, E3) &T) { self.s = S(r) }\n    }\n}\n")
	u.source = sb.String()
	return u
}

// heads are the members of S through which a &T is reached.
func sHeads() []string {
	var out []string
	for k := 0; k < 4; k++ {
		out = append(out, fmt.Sprintf("t%d", k), fmt.Sprintf("o%d!", k))
	}
	return append(out, "opt!", "plain", "pubT", "r12", "rd")
}

type chainSpec struct {
	expr     string // expression over `r`, yielding Int
	downcast bool   // result is 1/0 of a failable downcast
	mapped   bool
}

func chains(level string) []chainSpec {
	var out []chainSpec
	base := "r."
	if level == "O" {
		base = "r.s."
	}
	for _, h := range sHeads() {
		mapped := strings.HasPrefix(h, "t") || strings.HasPrefix(h, "o") || level == "O"
		for _, f := range leafFns() {
			out = append(out, chainSpec{expr: base + h + "." + f.name + "()", mapped: mapped})
		}
		for i := 0; i < nEnt; i++ {
			out = append(out, chainSpec{expr: fmt.Sprintf("(%s%s as? auth(C.E%d) &C.T) != nil ? 1 : 0", base, h, i), downcast: true, mapped: mapped})
		}
	}
	return out
}

// lineVerdicts checks src (imports C through u) and returns, per line, the
// checker errors located on it.
func lineVerdicts(u *tgen.Universe, src string) (map[int][]error, error) {
	_, err := u.Check(src, common.StringLocation("probe"))
	out := map[int][]error{}
	if err == nil {
		return out, nil
	}
	var ce *sema.CheckerError
	if !errors.As(err, &ce) {
		var ce2 sema.CheckerError
		if !errors.As(err, &ce2) {
			return nil, err
		}
		ce = &ce2
	}
	for _, e := range ce.Errors {
		hp, ok := e.(ast.HasPosition)
		if !ok {
			return nil, fmt.Errorf("checker error without position: %v", e)
		}
		out[hp.StartPosition().Line] = append(out[hp.StartPosition().Line], e)
	}
	return out, nil
}

func onlyUnrepresentable(errs []error) bool {
	for _, e := range errs {
		if _, ok := e.(*sema.UnrepresentableEntitlementMapOutputError); !ok {
			return false
		}
	}
	return len(errs) > 0
}

func intsOf(v cadence.Value) ([]int, bool) {
	arr, ok := v.(cadence.Array)
	if !ok {
		return nil, false
	}
	out := make([]int, len(arr.Values))
	for i, x := range arr.Values {
		iv, ok := x.(cadence.Int)
		if !ok {
			return nil, false
		}
		out[i] = iv.Int()
	}
	return out, true
}

func (c *c06) programsFor(seed int64, pairs int) {
	eu := genEntUniverse(seed)
	prog := &tgen.Program{Location: common.AddressLocation{Address: host.Addr(1), Name: "C"}, Name: "C", Source: eu.source}
	u, err := tgen.BuildUniverse(seed, []*tgen.Program{prog})
	if err != nil {
		c.rec.Inconclusive(c.t, "entitlement universe %d does not check: %v", seed, err)
	}
	h := host.New()
	if res := h.Deploy(host.Addr(1), "C", eu.source, host.Interp); res.Err != nil || res.Panic != nil {
		c.rec.Inconclusive(c.t, "entitlement universe %d does not deploy: %v %v", seed, res.Err, res.Panic)
	}
	r := evid.Rand(seed*31 + 5)
	const imp = "import C from 0x1\n"
	setup := func(level string) string {
		s := "    let t = C.T()\n    let tr = &t as auth(C.E0, C.E1, C.E2, C.E3) &C.T\n"
		if level == "O" {
			return s + "    let v = C.O(tr)\n"
		}
		return s + "    let v = C.S(tr)\n"
	}
	for p := 0; p < pairs; p++ {
		a1 := c.auth[r.Intn(len(c.auth))]
		level := "S"
		if r.Intn(2) == 0 {
			level = "O"
		}
		ty := "C." + level
		mkCase := func(a2 mAuth, chn, note string) c06Case {
			return c06Case{Part: "program", Seed: seed, Level: level, A: &a1, B: &a2, Chn: chn, Note: note + "\n" + eu.source}
		}

		// (1) which upcasts does the checker accept; do the run-time casts agree
		var sb strings.Builder
		sb.WriteString(imp)
		for k, a2 := range c.auth {
			fmt.Fprintf(&sb, "access(all) fun u%d(_ r: %s&%s): %s&%s { return r }\n", k, a1.RefPrefix("C."), ty, a2.RefPrefix("C."), ty)
		}
		verd, err := lineVerdicts(u, sb.String())
		if err != nil {
			c.rec.Inconclusive(c.t, "upcast probe: %v", err)
		}
		var ups []mAuth
		for k, a2 := range c.auth {
			accepted := len(verd[k+2]) == 0
			want := leq(a1, a2)
			nt := a1.Kind == kDisj || a2.Kind == kDisj
			c.rec.CaseH(nt, evid.Hash("upcast", a1, a2))
			c.rec.Class(fmt.Sprintf("program/upcast-accepted=%v", accepted))
			if accepted != want {
				c.rec.Violation(c.t, mkCase(a2, "", "static upcast"), "checker accepts upcast of %s&%s to %s&%s = %v, set semantics say %v (%v)",
					a1.RefPrefix(""), ty, a2.RefPrefix(""), ty, accepted, want, verd[k+2])
			}
			if accepted && a2 != a1 {
				ups = append(ups, a2)
			}
		}
		// run-time failable casts of a reference created with a1: directly (exactly the set
		// semantics) and after an upcast to AnyStruct (which by design drops the
		// authorization: it may succeed only where the set semantics allow it)
		sb.Reset()
		sb.WriteString(imp + "access(all) fun main(): [Int] {\n" + setup(level))
		fmt.Fprintf(&sb, "    let r1 = &v as %s&%s\n    let a: AnyStruct = r1\n    return [\n", a1.RefPrefix("C."), ty)
		for _, a2 := range c.auth {
			fmt.Fprintf(&sb, "        (r1 as? %s&%s) != nil ? 1 : 0, (a as? %s&%s) != nil ? 1 : 0,\n", a2.RefPrefix("C."), ty, a2.RefPrefix("C."), ty)
		}
		sb.WriteString("        0]\n}\n")
		for _, eng := range host.Engines {
			res := h.Script(sb.String(), nil, host.Options{Engine: eng})
			got, ok := intsOf(res.Value)
			if res.Err != nil || res.Panic != nil || !ok || len(got) != 2*len(c.auth)+1 {
				c.rec.Violation(c.t, mkCase(mAuth{}, "", sb.String()), "run-time cast script failed on %v: %v %v", eng, res.Err, res.Panic)
			}
			for k, a2 := range c.auth {
				want := 0
				if leq(a1, a2) {
					want = 1
				}
				direct, viaAny := got[2*k], got[2*k+1]
				c.rec.CaseH(a1.Kind == kDisj || a2.Kind == kDisj, evid.Hash("dyncast", eng, a1, a2))
				c.rec.Class(fmt.Sprintf("program/dyncast:want=%d,direct=%d,viaAnyStruct=%d", want, direct, viaAny))
				if direct != want || viaAny > want {
					c.rec.Violation(c.t, mkCase(a2, "", "dynamic cast on "+eng.String()), "%v: a reference created as %s&%s cast (as?) to %s&%s succeeds=%d (through AnyStruct: %d), set semantics say %d",
						eng, a1.RefPrefix(""), ty, a2.RefPrefix(""), ty, direct, viaAny, want)
				}
			}
		}
		if len(ups) == 0 {
			c.rec.Class("program/no-proper-upcast")
			continue
		}
		// (2) one upcast target: everything reachable through it must be reachable through the original
		a2 := ups[r.Intn(len(ups))]
		chs := chains(level)
		probe := func(a mAuth) string {
			var sb strings.Builder
			sb.WriteString(imp)
			for k, ch := range chs {
				fmt.Fprintf(&sb, "access(all) fun p%d(_ r: %s&%s): Int { return %s }\n", k, a.RefPrefix("C."), ty, ch.expr)
			}
			return sb.String()
		}
		src2, src1 := probe(a2), probe(a1)
		v2, err2 := lineVerdicts(u, src2)
		v1, err1 := lineVerdicts(u, src1)
		if err1 != nil || err2 != nil {
			c.rec.Inconclusive(c.t, "chain probe: %v %v", err1, err2)
		}
		var run []int
		for k, ch := range chs {
			acc2, acc1 := len(v2[k+2]) == 0, len(v1[k+2]) == 0
			nt := a1.Kind == kDisj || a2.Kind == kDisj || ch.mapped
			c.rec.CaseH(nt, evid.Hash("chain", seed, level, a1, a2, ch.expr))
			switch {
			case acc2 && acc1:
				c.rec.Class("program/chain:both-accepted")
				run = append(run, k)
			case !acc2 && !acc1:
				c.rec.Class("program/chain:both-rejected")
			case !acc2 && acc1:
				c.rec.Class("program/chain:only-original")
			default:
				if onlyUnrepresentable(v1[k+2]) {
					// the original's mapped authorization has no type syntax (disjunction of conjunctions): not an escalation
					c.rec.Class("program/chain:original-unrepresentable")
					continue
				}
				c.rec.Violation(c.t, mkCase(a2, ch.expr, "static"), "universe %d: through the upcast %s&%s the checker accepts `%s`, through the original %s&%s it rejects it: %v",
					seed, a2.RefPrefix(""), ty, ch.expr, a1.RefPrefix(""), ty, v1[k+2])
			}
			if nt && acc2 && c.rec.WantSample("chain/"+level+fmt.Sprint(ch.downcast)) {
				c.rec.Sample("chain/"+level+fmt.Sprint(ch.downcast), map[string]any{"universe": seed, "original": a1.String(), "upcast": a2.String(), "chain": ch.expr})
			}
		}
		if len(run) == 0 {
			continue
		}
		// (3) run the chains accepted through both on both engines
		sb.Reset()
		sb.WriteString(imp)
		for _, k := range run {
			fmt.Fprintf(&sb, "access(all) fun q%d(_ r: %s&%s): Int { return %s }\n", k, a2.RefPrefix("C."), ty, chs[k].expr)
			fmt.Fprintf(&sb, "access(all) fun o%d(_ r: %s&%s): Int { return %s }\n", k, a1.RefPrefix("C."), ty, chs[k].expr)
		}
		sb.WriteString("access(all) fun main(): [Int] {\n" + setup(level))
		fmt.Fprintf(&sb, "    let r1 = &v as %s&%s\n    let r2 = r1 as %s&%s\n    return [\n", a1.RefPrefix("C."), ty, a2.RefPrefix("C."), ty)
		for _, k := range run {
			fmt.Fprintf(&sb, "        q%d(r2), o%d(r1),\n", k, k)
		}
		sb.WriteString("        0]\n}\n")
		for _, eng := range host.Engines {
			res := h.Script(sb.String(), nil, host.Options{Engine: eng})
			got, ok := intsOf(res.Value)
			if res.Err != nil || res.Panic != nil || !ok || len(got) != 2*len(run)+1 {
				c.rec.Violation(c.t, mkCase(a2, "", sb.String()), "universe %d %v: accepted chains failed at run time: %v %v", seed, eng, res.Err, res.Panic)
			}
			for i, k := range run {
				via2, via1 := got[2*i], got[2*i+1]
				c.rec.CaseH(true, evid.Hash("run", eng, seed, level, a1, a2, chs[k].expr))
				c.rec.Class("program/run:" + eng.String())
				bad := via1 != via2
				if chs[k].downcast {
					bad = via1 < via2
					c.rec.Class(fmt.Sprintf("program/downcast:upcast=%d,original=%d", via2, via1))
				}
				if bad {
					c.rec.Violation(c.t, mkCase(a2, chs[k].expr, "run time on "+eng.String()), "universe %d %v: `%s` gives %d through the upcast %s&%s but %d through the original %s&%s",
						seed, eng, chs[k].expr, via2, a2.RefPrefix(""), ty, via1, a1.RefPrefix(""), ty)
				}
			}
		}
	}
}

// ---------------------------------------------------------------- test

func TestC06(t *testing.T) {
	rec := evid.Start(t, "C06", "A (algebra, sema API): PermitsAccess and reference subtyping on all ordered pairs of the 31 authorizations over 4 entitlements "+
		"(+ access(self)), IntersectAccess on all pairs, Image (soundness for every compatible holder set and monotonicity under upcast) for all 2*65536 relation sets "+
		"x 31 inputs, plus mappings built through checker-resolved include chains, all against a denotational model (an authorization denotes the set of holder "+
		"entitlement sets compatible with it). B (programs, both engines): generated contracts with mapped fields / mapped accessors / entitled members, nested two "+
		"levels; for a reference auth(A1) every upcast target the checker accepts must agree with the model (also the run-time `as?`), and every member chain "+
		"(calls of access(E..) functions, failable downcasts of the derived reference) accepted and allowed through the upcast must be accepted and give the same "+
		"result through the original. C (containers, both engines): generated values nesting authorized references at depth 1-3 inside variable-/constant-sized arrays, dictionaries, optionals, struct fields and references to containers, accessed through an outer reference with each authorization; for every extraction path (index, for-in, removeFirst/removeLast/remove(at:), slice, reverse, toVariableSized, dictionary lookup/remove/insert/values, field read) every reference in the checker's result type, and the innermost reference actually obtained at run time, must grant no more than the outer authorization and no more than its declared authorization. Non-trivial: a disjunction is involved, or the mapping has images of different sizes (incl. empty), or the chain goes through "+
		"a mapped member. Distinct by (part, map, inputs / universe, A1, A2, chain).")
	c := newC06(t, rec)

	if f := evid.ReplayFile(); f != "" {
		var cs c06Case
		if err := evid.LoadReplay(f, &cs); err != nil {
			t.Fatalf("bad replay file: %v", err)
		}
		c.replay(cs)
		return
	}

	// VERIF_C06_PART=B skips the algebra part (used by sensitivity experiments that
	// want to see the program part catch a mutation on its own)
	if os.Getenv("VERIF_C06_PART") != "B" {
		c.partA()
		c.includeChains(evid.N(400, 4000))
	}

	nU := evid.N(5, 12)
	seeds := make([]int64, 0, nU)
	r := evid.Rand(77)
	for i := 0; i < nU; i++ {
		if i < 4 {
			seeds = append(seeds, int64(i)+10*int64(evid.Shard()))
		} else {
			seeds = append(seeds, 1000+int64(r.Intn(1_000_000)))
		}
	}
	sort.Slice(seeds, func(i, j int) bool { return seeds[i] < seeds[j] })
	for _, s := range seeds {
		c.programsFor(s, evid.N(40, 100))
	}
	for _, s := range seeds {
		c.containersFor(s, evid.N(240, 1200))
	}
	if os.Getenv("VERIF_C06_PART") == "B" {
		return
	}
	requireClasses(t, rec, "container/path:removeFirst", "container/path:remove(key:)", "container/path:insert", "container/path:index", "container/path:field",
		"container/path:for-in", "container/path:toVariableSized", "container/has:constarray", "container/has:nested-reference", "container/has:dictionary",
		"container/run:interpreter", "container/run:vm", "container/run:entitlement-survives")
	requireClasses(t, rec, "image/disj->unauth", "image/disj->disj", "image/conj->conj", "image/unrepresentable", "image-include/depth2",
		"program/chain:both-accepted", "program/chain:both-rejected", "program/chain:only-original", "program/upcast-accepted=true",
		"program/run:interpreter", "program/run:vm")
}

func (c *c06) replay(cs c06Case) {
	leqTab := c.leqTable()
	switch cs.Part {
	case "permits":
		c.permitsCase(*cs.A, *cs.B, 0)
		c.permitsCase(*cs.A, *cs.B, 1)
	case "intersect":
		c.intersectCase(*cs.A, *cs.B, 0)
		c.intersectCase(*cs.A, *cs.B, 1)
	case "image":
		m := *cs.Map
		acc := sema.NewEntitlementMapAccess(c.ents.mapType(m, "M"))
		c.imageCases(m, acc, func(in mAuth) c06Case { return c06Case{Part: "image", A: &in, Map: &m} }, 0, leqTab)
	case "image-include":
		c.t.Skip("include-chain cases are replayed by re-running the sampled programs (deterministic for the seed)")
	case "program":
		c.programsFor(cs.Seed, evid.N(40, 100))
	case "container":
		c.containersFor(cs.Seed, evid.N(240, 1200))
	default:
		c.t.Fatalf("unknown part %q", cs.Part)
	}
}
