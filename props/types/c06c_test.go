package types

import (
	"fmt"
	"math/rand"
	"strings"

	"github.com/onflow/cadence"
	"github.com/onflow/cadence/ast"
	"github.com/onflow/cadence/common"
	"github.com/onflow/cadence/sema"

	"verif/lib/evid"
	"verif/lib/host"
	"verif/lib/tgen"
)

// ---------------------------------------------------------------- part C: containers of references
//
// "Authorization derived for nested access, by intersection ... never grants more
// than the source authorization": a value `outer` whose type nests authorized
// references inside containers (variable-sized and constant-sized arrays,
// dictionaries, optionals, struct fields, references to containers) is accessed
// through `auth(A) &V`; whatever an extraction path yields (index read, for-in,
// removeFirst/removeLast/remove(at:), slice, reverse, toVariableSized, dictionary
// lookup/remove/insert/values, field read), every reference inside the result
// must grant no more than A and no more than the authorization it was declared
// with (holder-set model) - in the checker's static type and at run time.

const (
	vLeaf = iota // auth(B) &C.T
	vVarr        // [V]
	vCarr        // [V; 1]
	vDict        // {String: V}
	vOpt         // V?
	vRef         // auth(B) &<container V>
	vWrap        // C.W<k>, a struct with field f: V
)

type vt struct {
	Kind  int   `json:"k"`
	Auth  mAuth `json:"auth,omitempty"`
	Child *vt   `json:"c,omitempty"`
	Wrap  int   `json:"w,omitempty"`
}

func (v *vt) src() string {
	switch v.Kind {
	case vLeaf:
		return v.Auth.RefPrefix("C.") + "&C.T"
	case vVarr:
		return "[" + v.Child.src() + "]"
	case vCarr:
		return "[" + v.Child.src() + "; 1]"
	case vDict:
		return "{String: " + v.Child.src() + "}"
	case vOpt:
		if v.Child.Kind == vLeaf || v.Child.Kind == vRef {
			return "(" + v.Child.src() + ")?"
		}
		return v.Child.src() + "?"
	case vRef:
		return v.Auth.RefPrefix("C.") + "&" + v.Child.src()
	}
	return fmt.Sprintf("C.W%d", v.Wrap)
}

// value builds an expression of type v; pre collects `let` statements needed
// before it (targets of nested references).
func (v *vt) value(pre *[]string, n *int) string {
	switch v.Kind {
	case vLeaf:
		return "(C.full() as " + v.src() + ")"
	case vVarr:
		return "([" + v.Child.value(pre, n) + "] as " + v.src() + ")"
	case vCarr:
		return "([" + v.Child.value(pre, n) + "] as " + v.src() + ")"
	case vDict:
		return "({\"k\": " + v.Child.value(pre, n) + "} as " + v.src() + ")"
	case vOpt:
		return "(" + v.Child.value(pre, n) + " as " + v.src() + ")"
	case vRef:
		*n++
		name := fmt.Sprintf("inner%d", *n)
		*pre = append(*pre, fmt.Sprintf("var %s: %s = %s", name, v.Child.src(), v.Child.value(pre, n)))
		return "(&" + name + " as " + v.src() + ")"
	}
	return fmt.Sprintf("C.W%d(%s)", v.Wrap, v.Child.value(pre, n))
}

// drill extends expr (of type v) to the innermost leaf reference.
func (v *vt) drill(expr string) string {
	switch v.Kind {
	case vLeaf:
		return expr
	case vVarr, vCarr:
		return v.Child.drill(expr + "[0]")
	case vDict:
		return v.Child.drill("(" + expr + "[\"k\"]!)")
	case vOpt:
		return v.Child.drill("(" + expr + "!)")
	case vRef:
		return v.Child.drill(expr)
	}
	return v.Child.drill(expr + ".f")
}

func (v *vt) depth() int {
	if v.Child == nil {
		return 1
	}
	return 1 + v.Child.depth()
}

func (v *vt) has(kind int) bool {
	for x := v; x != nil; x = x.Child {
		if x.Kind == kind {
			return true
		}
	}
	return false
}

// refAuths lists the authorizations of the reference nodes from v down to the leaf.
func (v *vt) refAuths() []mAuth {
	var out []mAuth
	for x := v; x != nil; x = x.Child {
		if x.Kind == vLeaf || x.Kind == vRef {
			out = append(out, x.Auth)
		}
	}
	return out
}

type contUniverse struct {
	seed   int64
	wraps  []*vt // field types of C.W0..
	source string
	u      *tgen.Universe
	h      *host.Host
	ents   semaEnts
}

func randAuth(r *rand.Rand, auths []mAuth) mAuth { return auths[r.Intn(len(auths))] }

// genVT draws a type of the given depth below a container (depth 0 = leaf).
func genVT(r *rand.Rand, auths []mAuth, depth int, nWraps int) *vt {
	if depth <= 0 {
		return &vt{Kind: vLeaf, Auth: randAuth(r, auths)}
	}
	switch k := r.Intn(13); {
	case k < 2:
		return &vt{Kind: vVarr, Child: genVT(r, auths, depth-1, nWraps)}
	case k < 6: // constant-sized arrays are the rarely exercised kind: weight them
		return &vt{Kind: vCarr, Child: genVT(r, auths, depth-1, nWraps)}
	case k < 8:
		return &vt{Kind: vDict, Child: genVT(r, auths, depth-1, nWraps)}
	case k < 9:
		c := genVT(r, auths, depth-1, nWraps)
		if c.Kind == vOpt {
			return c
		}
		return &vt{Kind: vOpt, Child: c}
	case k < 11:
		c := genVT(r, auths, depth-1, nWraps)
		if c.Kind == vLeaf || c.Kind == vRef || c.Kind == vOpt {
			return &vt{Kind: vVarr, Child: c}
		}
		return &vt{Kind: vRef, Auth: randAuth(r, auths), Child: c}
	default:
		if nWraps > 0 {
			return &vt{Kind: vWrap, Wrap: r.Intn(nWraps)}
		}
		return &vt{Kind: vCarr, Child: genVT(r, auths, depth-1, nWraps)}
	}
}

func (c *c06) newContUniverse(seed int64) *contUniverse {
	r := rand.New(rand.NewSource(seed*6151 + 9))
	cu := &contUniverse{seed: seed}
	for k := 0; k < 6; k++ {
		cu.wraps = append(cu.wraps, genVT(r, c.auth, r.Intn(3), 0))
	}
	var sb strings.Builder
	sb.WriteString("access(all) contract C {\n")
	for i := 0; i < nEnt; i++ {
		fmt.Fprintf(&sb, "    access(all) entitlement E%d\n", i)
	}
	sb.WriteString("    access(all) struct T { access(all) fun id(): Int { return 1 } }\n    access(all) let t: T\n")
	sb.WriteString("    access(all) fun full(): auth(E0, E1, E2, E3) &T { return &self.t as auth(E0, E1, E2, E3) &T }\n")
	for k, w := range cu.wraps {
		ty := strings.ReplaceAll(w.src(), "C.", "")
		fmt.Fprintf(&sb, "    access(all) struct W%d {\n        access(all) let f: %s\n        init(_ f: %s) { self.f = f }\n    }\n", k, ty, ty)
	}
	sb.WriteString("    init() { self.t = T() }\n}\n")
	cu.source = sb.String()
	u, err := tgen.BuildUniverse(seed, []*tgen.Program{{Location: common.AddressLocation{Address: host.Addr(1), Name: "C"}, Name: "C", Source: cu.source}})
	if err != nil {
		c.rec.Inconclusive(c.t, "container universe %d does not check: %v", seed, err)
	}
	cu.u = u
	for _, e := range u.Entitlements {
		var i int
		fmt.Sscanf(e.Identifier, "E%d", &i)
		cu.ents[i] = e
	}
	cu.h = host.New()
	if res := cu.h.Deploy(host.Addr(1), "C", cu.source, host.Interp); res.Err != nil || res.Panic != nil {
		c.rec.Inconclusive(c.t, "container universe %d does not deploy: %v %v\n%s", seed, res.Err, res.Panic, cu.source)
	}
	return cu
}

// resolve replaces a wrapper node by a copy that carries its field type as child.
func (cu *contUniverse) resolve(v *vt) *vt {
	if v == nil {
		return nil
	}
	out := *v
	if v.Kind == vWrap {
		out.Child = cu.resolve(cu.wraps[v.Wrap])
	} else {
		out.Child = cu.resolve(v.Child)
	}
	return &out
}

// extraction path: expression over `r` (the outer reference), whether it
// mutates (needs Mutate on the outer reference), and the model type of its result.
type contPath struct {
	name    string
	stmt    string // statement(s) declaring `let x = ...`; %ELEM% stands for a fresh element value
	mutates bool
	result  *vt
	owned   bool // the result is an owned value (a copy / a removed element), not a view through r
}

func contPaths(top *vt) []contPath {
	c := top.Child
	arr := &vt{Kind: vVarr, Child: c}
	opt := func(x *vt) *vt { return &vt{Kind: vOpt, Child: x} }
	switch top.Kind {
	case vVarr:
		return []contPath{
			{"index", "let x = r[0]", false, c, false},
			{"for-in", "for e in r { let x = e }", false, c, false},
			{"removeFirst", "let x = r.removeFirst()", true, c, true},
			{"removeLast", "let x = r.removeLast()", true, c, true},
			{"remove(at:)", "let x = r.remove(at: 0)", true, c, true},
			{"slice", "let x = r.slice(from: 0, upTo: 1)", false, arr, true},
			{"reverse", "let x = r.reverse()", false, arr, true},
		}
	case vCarr:
		return []contPath{
			{"index", "let x = r[0]", false, c, false},
			{"for-in", "for e in r { let x = e }", false, c, false},
			{"toVariableSized", "let x = r.toVariableSized()", false, arr, true},
			{"reverse", "let x = r.reverse()", false, &vt{Kind: vCarr, Child: c}, true},
		}
	case vDict:
		return []contPath{
			{"lookup", "let x = r[\"k\"]", false, opt(c), false},
			{"remove(key:)", "let x = r.remove(key: \"k\")", true, opt(c), true},
			{"insert", "let x = r.insert(key: \"k\", %ELEM%)", true, opt(c), true},
			{"values", "let x = r.values", false, arr, true},
		}
	case vWrap:
		return []contPath{{"field", "let x = r.f", false, c, false}}
	}
	return nil
}

// outerModel is the outer authorization restricted to the user entitlements.
func outerSrc(a mAuth, mutates bool) string {
	if !mutates {
		return a.RefPrefix("C.")
	}
	if a.Kind == kUnauth {
		return "auth(Mutate) "
	}
	return "auth(Mutate, " + a.List("C.") + ") "
}

// alignProblem walks the checker's result type x along the model type v and
// checks every reference node: it must grant no more than the outer
// authorization and no more than every declared authorization above and at it.
func (cu *contUniverse) alignProblem(x sema.Type, v *vt, outer mAuth, caps []mAuth) string {
	if ot, ok := x.(*sema.OptionalType); ok {
		if v.Kind == vOpt {
			return cu.alignProblem(ot.Type, v.Child, outer, caps)
		}
		return cu.alignProblem(ot.Type, v, outer, caps)
	}
	if rt, ok := x.(*sema.ReferenceType); ok {
		got, okd := cu.ents.decode(rt.Authorization)
		if !okd {
			return fmt.Sprintf("reference %s carries an authorization outside the sources", rt)
		}
		if !leq(outer, got) {
			return fmt.Sprintf("reference %s grants more than the outer authorization %s", rt, outer)
		}
		if v.Kind != vLeaf && v.Kind != vRef {
			// a wrapping reference introduced by the access
			return cu.alignProblem(rt.Type, v, outer, caps)
		}
		caps = append(append([]mAuth{}, caps...), v.Auth)
		for _, cap := range caps {
			if !leq(cap, got) {
				return fmt.Sprintf("reference %s grants more than the declared authorization %s of the value it came from", rt, cap)
			}
		}
		if v.Kind == vLeaf {
			return ""
		}
		return cu.alignProblem(rt.Type, v.Child, outer, caps)
	}
	switch v.Kind {
	case vOpt:
		// the checker may have flattened nothing: an optional was expected
		return fmt.Sprintf("expected an optional, got %s", x)
	case vVarr:
		if a, ok := x.(*sema.VariableSizedType); ok {
			return cu.alignProblem(a.Type, v.Child, outer, caps)
		}
	case vCarr:
		if a, ok := x.(*sema.ConstantSizedType); ok {
			return cu.alignProblem(a.Type, v.Child, outer, caps)
		}
	case vDict:
		if d, ok := x.(*sema.DictionaryType); ok {
			return cu.alignProblem(d.ValueType, v.Child, outer, caps)
		}
	case vWrap:
		if _, ok := x.(*sema.CompositeType); ok {
			return "" // an owned struct value: its field is read through a later access
		}
	}
	return fmt.Sprintf("result type %s does not have the shape of %s", x, v.src())
}

// findLetX returns the declaration `let x = ...` of function body statements.
func findLetX(stmts []ast.Statement) *ast.VariableDeclaration {
	for _, s := range stmts {
		switch s := s.(type) {
		case *ast.VariableDeclaration:
			if s.Identifier.Identifier == "x" {
				return s
			}
		case *ast.ForStatement:
			if d := findLetX(s.Block.Statements); d != nil {
				return d
			}
		}
	}
	return nil
}

type contCase struct {
	top   *vt
	outer mAuth
	path  contPath
}

func (c *c06) containersFor(seed int64, n int) {
	cu := c.newContUniverse(seed)
	r := evid.Rand(seed*97 + 13)
	const batch = 24
	for done := 0; done < n; done += batch {
		var cases []contCase
		for len(cases) < batch {
			top := genVT(r, c.auth, 1+r.Intn(3), len(cu.wraps))
			if top.Kind == vLeaf || top.Kind == vOpt || top.Kind == vRef {
				continue
			}
			top = cu.resolve(top)
			if top.depth() > 6 {
				continue
			}
			paths := contPaths(top)
			p := paths[r.Intn(len(paths))]
			cases = append(cases, contCase{top: top, outer: randAuth(r, c.auth), path: p})
		}
		c.containerBatch(cu, cases)
	}
}

func (c *c06) containerBatch(cu *contUniverse, cases []contCase) {
	const imp = "import C from 0x1\n"
	mk := func(cs contCase, note string) c06Case {
		a := cs.outer
		return c06Case{Part: "container", Seed: cu.seed, A: &a, Chn: cs.path.name + " on " + cs.top.src(), Note: note + "\n" + cu.source}
	}
	// outer authorizations of mutating paths are conjunctions (plus Mutate)
	for i := range cases {
		if cases[i].path.mutates && cases[i].outer.Kind == kDisj {
			cases[i].outer.Kind = kConj
		}
	}
	// (1) static: the checker's type of every extraction
	var sb strings.Builder
	sb.WriteString(imp)
	for k, cs := range cases {
		var pre []string
		n := 0
		elem := ""
		if strings.Contains(cs.path.stmt, "%ELEM%") {
			elem = cs.top.Child.value(&pre, &n)
		}
		fmt.Fprintf(&sb, "access(all) fun p%d(_ r: %s&%s) { %s %s }\n", k, outerSrc(cs.outer, cs.path.mutates), cs.top.src(),
			strings.Join(append(pre, ""), "; "), strings.ReplaceAll(cs.path.stmt, "%ELEM%", elem))
	}
	checker, err := cu.u.Check(sb.String(), common.StringLocation("contprobe"))
	if err != nil {
		c.rec.Inconclusive(c.t, "container probe program does not check (generator bug?): %v\n%s\n%s", err, sb.String(), cu.source)
	}
	fns := checker.Program.FunctionDeclarations()
	for k, cs := range cases {
		decl := findLetX(fns[k].FunctionBlock.Block.Statements)
		if decl == nil {
			c.t.Fatalf("no `let x` in p%d", k)
		}
		x := checker.Elaboration.VariableDeclarationTypes(decl).TargetType
		nt := cs.outer.Kind == kDisj || cs.top.has(vCarr) || cs.top.depth() >= 3
		c.rec.CaseH(nt, evid.Hash("cont", cu.seed, cs.outer, cs.path.name, cs.top.src()))
		c.rec.Class("container/path:" + cs.path.name)
		for _, kind := range []struct {
			k int
			n string
		}{{vVarr, "array"}, {vCarr, "constarray"}, {vDict, "dictionary"}, {vOpt, "optional"}, {vRef, "nested-reference"}, {vWrap, "struct-field"}} {
			if cs.top.has(kind.k) {
				c.rec.Class("container/has:" + kind.n)
			}
		}
		c.rec.Class(fmt.Sprintf("container/depth:%d", min(cs.top.depth(), 6)))
		if nt && c.rec.WantSample("container/"+cs.path.name) {
			c.rec.Sample("container/"+cs.path.name, map[string]any{"universe": cu.seed, "outer": outerSrc(cs.outer, cs.path.mutates) + "&" + cs.top.src(),
				"path": cs.path.stmt, "checker_type": x.QualifiedString()})
		}
		if msg := cu.alignProblem(x, cs.path.result, cs.outer, nil); msg != "" {
			c.rec.Violation(c.t, mk(cs, "static: "+cs.path.stmt), "universe %d: `%s` through %s&%s is typed %s: %s",
				cu.seed, cs.path.stmt, outerSrc(cs.outer, cs.path.mutates), cs.top.src(), x.QualifiedString(), msg)
		}
	}
	// (2) run time, both engines: which entitlements does the innermost extracted reference really hold
	sb.Reset()
	sb.WriteString(imp)
	for k, cs := range cases {
		var pre []string
		n := 0
		outerVal := cs.top.value(&pre, &n)
		elem := ""
		if strings.Contains(cs.path.stmt, "%ELEM%") {
			elem = cs.top.Child.value(&pre, &n)
		}
		stmt := strings.ReplaceAll(cs.path.stmt, "%ELEM%", elem)
		leaf := cs.path.result.drill("x")
		var casts []string
		for i := 0; i < nEnt; i++ {
			casts = append(casts, fmt.Sprintf("(%s as? auth(C.E%d) &C.T) != nil ? 1 : 0", leaf, i))
		}
		body := "out = [" + strings.Join(casts, ", ") + "]"
		if strings.HasPrefix(stmt, "for ") {
			stmt = strings.Replace(stmt, "let x = e }", "let x = e; "+body+" }", 1)
			body = ""
		}
		fmt.Fprintf(&sb, "access(all) fun c%d(): [Int] {\n    var out: [Int] = []\n    %s\n    var outer: %s = %s\n    let r = &outer as %s&%s\n    %s\n    %s\n    return out\n}\n",
			k, strings.Join(pre, "\n    "), cs.top.src(), outerVal, outerSrc(cs.outer, cs.path.mutates), cs.top.src(), stmt, body)
	}
	sb.WriteString("access(all) fun main(): [[Int]] {\n    return [\n")
	for k := range cases {
		fmt.Fprintf(&sb, "        c%d(),\n", k)
	}
	sb.WriteString("        []]\n}\n")
	src := sb.String()
	for _, eng := range host.Engines {
		res := cu.h.Script(src, nil, host.Options{Engine: eng, NoAtreeValidation: true})
		if res.Err != nil || res.Panic != nil {
			c.rec.Violation(c.t, c06Case{Part: "container", Seed: cu.seed, Note: src + "\n" + cu.source}, "universe %d %v: container script failed: %v %v", cu.seed, eng, res.Err, res.Panic)
		}
		rows := valuesOf(res.Value)
		if len(rows) != len(cases)+1 {
			c.rec.Violation(c.t, c06Case{Part: "container", Seed: cu.seed, Note: src}, "universe %d %v: unexpected result %v", cu.seed, eng, res.Value)
		}
		for k, cs := range cases {
			got, ok := intsOf(rows[k])
			if !ok || len(got) != nEnt {
				c.rec.Violation(c.t, mk(cs, src), "universe %d %v: case %d returned %v", cu.seed, eng, k, rows[k])
			}
			if cs.path.owned && cs.path.result.has(vWrap) {
				// an owned struct value was extracted: the static type of its field cannot be narrowed,
				// the references inside it keep their declared authorization (reported as an observation, not judged)
				c.rec.Class("container/run:not-judged-owned-struct")
				continue
			}
			sources := append([]mAuth{cs.outer}, cs.path.result.refAuths()...)
			c.rec.CaseH(true, evid.Hash("cont-run", eng, cu.seed, cs.outer, cs.path.name, cs.top.src()))
			c.rec.Class("container/run:" + eng.String())
			for i := 0; i < nEnt; i++ {
				if got[i] == 0 {
					continue
				}
				c.rec.Class("container/run:entitlement-survives")
				for _, s := range sources {
					if !leq(s, mAuth{kConj, 1 << i}) {
						c.rec.Violation(c.t, mk(cs, "run time on "+eng.String()+": "+cs.path.stmt), "universe %d %v: after `%s` through %s&%s the innermost reference `%s` holds E%d, which the source %s does not grant",
							cu.seed, eng, cs.path.stmt, outerSrc(cs.outer, cs.path.mutates), cs.top.src(), cs.path.result.drill("x"), i, s)
					}
				}
			}
		}
	}
}

func valuesOf(v cadence.Value) []cadence.Value {
	if a, ok := v.(cadence.Array); ok {
		return a.Values
	}
	return nil
}
