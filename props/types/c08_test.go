package types

import (
	"fmt"
	"math/rand"
	"testing"

	"github.com/onflow/cadence/interpreter"
	"github.com/onflow/cadence/sema"

	"verif/lib/evid"
	"verif/lib/tgen"
)

// c08Case is the replay format of C08.
type c08Case struct {
	Universe int64     `json:"universe"`
	Kind     string    `json:"kind"` // "pair" | "triple"
	S        *tgen.Enc `json:"s"`
	T        *tgen.Enc `json:"t"`
	U        *tgen.Enc `json:"u,omitempty"`
	// human-readable forms
	SID string `json:"s_id,omitempty"`
	TID string `json:"t_id,omitempty"`
	UID string `json:"u_id,omitempty"`
}

// rel holds the relation results for one ordered pair.
type rel struct {
	eq      bool    // S.Equal(T) in the checker
	raw     [3]bool // the three *WithoutEquality* relations (only evaluated when !eq)
	r       [3]bool // full relations: eq||hand-written, interpreter.IsSubType, IsSubTypeOfSemaType
	panicAt string
	ft2     bool // run-time/checker disagreement matching known finding FT2
}

var rawNames = [3]string{
	"sema.CheckSubTypeWithoutEquality (hand-written)",
	"sema.CheckSubTypeWithoutEquality_gen",
	"interpreter.CheckSubTypeWithoutEquality_gen",
}

var relNames = [3]string{
	"sema.IsSubTypeWithoutComparison",
	"interpreter.IsSubType",
	"interpreter.IsSubTypeOfSemaType",
}

// knownFT2 is set when finding FT2 is listed as known. Root cause: the checker's
// `T <: AnyResource` rule asks T.IsResourceType(), which is false for containers
// of `Never` (`Never?`, `[Never]`, `{String: Never}` ...), although covariance
// makes those containers subtypes of containers of resources. Two symptoms:
//   - pairs: the run-time shortcut for optionals (IsSubTypeOfSemaType strips the
//     optional before asking) answers `Never? <: AnyResource` = true, the checker false;
//   - triples: C[Never] <: C[R] and C[R] <: AnyResource but not C[Never] <: AnyResource.
var knownFT2 bool

func isNever(x sema.Type) bool       { return x == sema.NeverType }
func isAnyResource(x sema.Type) bool { return x == sema.AnyResourceType }

// ft2Pair: S = Never wrapped in >= 1 optionals, T = AnyResource wrapped in >= 0 optionals.
func ft2Pair(s, t sema.Type) bool {
	so, ok := s.(*sema.OptionalType)
	if !ok || sema.UnwrapOptionalType(so) != sema.NeverType {
		return false
	}
	return sema.UnwrapOptionalType(t) == sema.AnyResourceType
}

// ft2Triple: S has `Never` as a proper component and U mentions AnyResource.
func ft2Triple(s, x sema.Type) bool {
	return s != sema.NeverType && tgen.Has(s, isNever) && tgen.Has(x, isAnyResource)
}

func relations(u *tgen.Universe, s, t sema.Type) (out rel) {
	var ss, st interpreter.StaticType
	step := "convert"
	p := guard(func() {
		ss, st = tgen.Static(s), tgen.Static(t)
		out.eq = s.Equal(t)
		if !out.eq {
			// the three rule sets are compared the way cadence's own comparison mode
			// does: on non-Equal pairs, without the equality shortcut
			step = rawNames[0]
			out.raw[0] = sema.CheckSubTypeWithoutEquality(s, t)
			step = rawNames[1]
			out.raw[1] = sema.CheckSubTypeWithoutEquality_gen(s, t)
			step = rawNames[2]
			out.raw[2] = interpreter.CheckSubTypeWithoutEquality_gen(u.Inter, ss, st)
		}
		step = relNames[0]
		out.r[0] = sema.IsSubTypeWithoutComparison(s, t)
		step = relNames[1]
		out.r[1] = interpreter.IsSubType(u.Inter, ss, st)
		step = relNames[2]
		out.r[2] = interpreter.IsSubTypeOfSemaType(u.Inter, ss, t)
	})
	if p != "" {
		out.panicAt = step + ": " + p
	}
	return
}

// pairProblem returns "" when all implementations agree on (s,t) and the pair
// laws hold.
func pairProblem(u *tgen.Universe, s, t sema.Type) (string, rel) {
	r := relations(u, s, t)
	if r.panicAt != "" {
		return "panic in " + r.panicAt, r
	}
	if !r.eq {
		for i := 1; i < 3; i++ {
			if r.raw[i] != r.raw[0] {
				return fmt.Sprintf("%s = %v but %s = %v", rawNames[0], r.raw[0], rawNames[i], r.raw[i]), r
			}
		}
		if r.r[0] != r.raw[0] {
			return fmt.Sprintf("%s = %v but %s = %v on non-Equal types", relNames[0], r.r[0], rawNames[0], r.raw[0]), r
		}
	}
	for i := 1; i < 3; i++ {
		if r.r[i] != r.r[0] {
			if knownFT2 && ft2Pair(s, t) {
				r.ft2 = true
				continue
			}
			return fmt.Sprintf("%s = %v but %s = %v", relNames[0], r.r[0], relNames[i], r.r[i]), r
		}
	}
	if r.eq && !r.r[0] {
		return "not reflexive (Equal types are not subtypes)", r
	}
	if s == sema.NeverType && !r.r[0] {
		return "Never is not a subtype", r
	}
	if t == sema.AnyType && !r.r[0] {
		return "Any is not a supertype", r
	}
	return "", r
}

func sub(s, t sema.Type) bool { return sema.IsSubTypeWithoutComparison(s, t) }

type c08 struct {
	t   *testing.T
	rec *evid.Rec
	// counters
	pairs, related int64
}

func nontrivialPair(s, t sema.Type, r rel) bool {
	if r.eq {
		return false
	}
	interesting := func(x sema.Type) bool {
		if tgen.Depth(x) >= 2 {
			return true
		}
		switch x.(type) {
		case *sema.ReferenceType, *sema.IntersectionType, *sema.FunctionType:
			return true
		}
		return false
	}
	return interesting(s) || interesting(t)
}

func (c *c08) makeCase(u *tgen.Universe, kind string, s, t, x sema.Type) c08Case {
	cs := c08Case{Universe: u.Seed, Kind: kind, S: tgen.Encode(s), T: tgen.Encode(t), SID: typeStr(s), TID: typeStr(t)}
	if x != nil {
		cs.U = tgen.Encode(x)
		cs.UID = typeStr(x)
	}
	return cs
}

// shrinkPair greedily simplifies (s,t) while bad(s,t) stays true.
func shrinkPair(s, t sema.Type, bad func(s, t sema.Type) bool) (sema.Type, sema.Type) {
	for round := 0; round < 200; round++ {
		improved := false
		for _, s2 := range tgen.Simplify(s) {
			if bad(s2, t) {
				s, improved = s2, true
				break
			}
		}
		if !improved {
			for _, t2 := range tgen.Simplify(t) {
				if bad(s, t2) {
					t, improved = t2, true
					break
				}
			}
		}
		if !improved {
			break
		}
	}
	return s, t
}

func (c *c08) checkPair(u *tgen.Universe, s, t sema.Type, mode string) rel {
	msg, r := pairProblem(u, s, t)
	nt := nontrivialPair(s, t, r)
	c.rec.CaseH(nt, evid.Hash("p", u.Seed, s.ID(), t.ID()))
	c.pairs++
	if r.ft2 {
		c.rec.Excluded("FT2")
	}
	if r.r[0] {
		c.related++
	}
	if nt {
		c.rec.Class("mode:" + mode)
		c.rec.Class("sub-root:" + tgen.Kind(s))
		c.rec.Class("super-root:" + tgen.Kind(t))
		if r.r[0] {
			c.rec.Class("outcome:subtype")
		} else {
			c.rec.Class("outcome:not-subtype")
		}
		label := fmt.Sprintf("%s/%s<:%s=%v", mode, tgen.Kind(s), tgen.Kind(t), r.r[0])
		if c.rec.WantSample(label) {
			c.rec.Sample(label, map[string]any{"universe": u.Seed, "s": typeStr(s), "t": typeStr(t), "subtype": r.r[0]})
		}
	}
	if msg != "" {
		s2, t2 := shrinkPair(s, t, func(a, b sema.Type) bool { m, _ := pairProblem(u, a, b); return m != "" })
		msg2, _ := pairProblem(u, s2, t2)
		c.rec.Violation(c.t, c.makeCase(u, "pair", s2, t2, nil), "universe %d: S=%s T=%s: %s (found as S=%s T=%s: %s)",
			u.Seed, typeStr(s2), typeStr(t2), msg2, typeStr(s), typeStr(t), msg)
	}
	return r
}

func (c *c08) checkTriple(u *tgen.Universe, s, t, x sema.Type, mode string) {
	st, tx := sub(s, t), sub(t, x)
	nt := st && tx && !s.Equal(t) && !t.Equal(x)
	c.rec.CaseH(nt, evid.Hash("t", u.Seed, s.ID(), t.ID(), x.ID()))
	if !st || !tx {
		c.rec.Class("triple:premise-false")
		return
	}
	c.rec.Class("triple:premise-true/" + mode)
	if nt && c.rec.WantSample("triple/"+mode) {
		c.rec.Sample("triple/"+mode, map[string]any{"universe": u.Seed, "s": typeStr(s), "t": typeStr(t), "u": typeStr(x)})
	}
	if !sub(s, x) {
		if knownFT2 && ft2Triple(s, x) {
			c.rec.Excluded("FT2")
			return
		}
		// minimise: shrink each of the three while the triple stays a counterexample
		bad := func(a, b, d sema.Type) bool { return sub(a, b) && sub(b, d) && !sub(a, d) }
		for round := 0; round < 100; round++ {
			improved := false
			for _, a := range tgen.Simplify(s) {
				if bad(a, t, x) {
					s, improved = a, true
					break
				}
			}
			for _, b := range tgen.Simplify(t) {
				if bad(s, b, x) {
					t, improved = b, true
					break
				}
			}
			for _, d := range tgen.Simplify(x) {
				if bad(s, t, d) {
					x, improved = d, true
					break
				}
			}
			if !improved {
				break
			}
		}
		c.rec.Violation(c.t, c.makeCase(u, "triple", s, t, x), "universe %d: not transitive: %s <: %s and %s <: %s but not %s <: %s",
			u.Seed, typeStr(s), typeStr(t), typeStr(t), typeStr(x), typeStr(s), typeStr(x))
	}
}

func TestC08(t *testing.T) {
	rec := evid.Start(t, "C08", "pairs (S,T) and triples of sema types drawn by lib/tgen over checked universes (entitlements, mappings, interface DAGs, "+
		"composites, attachments, contracts; depth <= 4), biased to related types by rule-driven weakening/strengthening (modes: random, weaken, "+
		"weaken2, strengthen, copy, never, any) plus all ordered pairs of a closed set; for each pair the hand-written sema relation, the generated "+
		"sema relation, the generated static-type relation, interpreter.IsSubType and IsSubTypeOfSemaType must agree, Equal types must be related, "+
		"Never <: T, T <: Any; for triples S<:T and T<:U must imply S<:U (chained weakenings and all triples of a related pool). "+
		"Non-trivial pair: not Equal and one side has depth >= 2 or is a reference/intersection/function; non-trivial triple: both premises hold "+
		"with no two adjacent types Equal. Distinct by (universe, ID(S), ID(T)[, ID(U)]).")
	c := &c08{t: t, rec: rec}
	if rec.Known("FT2") {
		arrNever := sema.NewVariableSizedType(nil, sema.NeverType)
		arrR := sema.NewVariableSizedType(nil, tgen.NewUniverse(0).Resources[0])
		still := sub(arrNever, arrR) && sub(arrR, sema.AnyResourceType) && !sub(arrNever, sema.AnyResourceType)
		rec.ReportKnown("FT2", still)
		knownFT2 = true
	}

	if f := evid.ReplayFile(); f != "" {
		var cs c08Case
		if err := evid.LoadReplay(f, &cs); err != nil {
			t.Fatalf("bad replay file: %v", err)
		}
		u := tgen.NewUniverse(cs.Universe)
		s, err1 := u.Decode(cs.S)
		ty, err2 := u.Decode(cs.T)
		if err1 != nil || err2 != nil {
			t.Fatalf("bad replay types: %v %v", err1, err2)
		}
		if cs.Kind == "triple" {
			x, err := u.Decode(cs.U)
			if err != nil {
				t.Fatalf("bad replay type: %v", err)
			}
			c.checkTriple(u, s, ty, x, "replay")
			return
		}
		c.checkPair(u, s, ty, "replay")
		return
	}

	// regression inputs of fixed findings (FT1: the generated static relation used to
	// panic on two different InclusiveRange<T> types) are always evaluated
	{
		u0 := tgen.NewUniverse(0)
		c.checkPair(u0, sema.NewInclusiveRangeType(nil, sema.Int16Type), sema.NewInclusiveRangeType(nil, sema.IntegerType), "regression")
		c.checkPair(u0, sema.NewInclusiveRangeType(nil, sema.IntegerType), sema.NewInclusiveRangeType(nil, sema.Int16Type), "regression")
	}

	seeds := universeSeeds(evid.N(2, 6))
	perU := evid.N(300_000, 3_000_000) / len(seeds)
	triplesPerU := evid.N(100_000, 1_000_000) / len(seeds)
	for ui, seed := range seeds {
		u := tgen.NewUniverse(seed)
		r := evid.Rand(1000 + seed)
		g := tgen.NewGen(u, tgen.RandSrc{R: r}, tgen.Options{MaxDepth: 4})
		c.randomPairs(u, g, r, perU)
		c.chains(u, g, r, triplesPerU/2)
		c.poolTriples(u, g, r, triplesPerU/2)
		if ui == 0 && evid.Shard() == 0 {
			c.closedSet(u, evid.N(160, 400))
		}
	}
	frac := float64(c.related) / float64(max(c.pairs, 1))
	rec.Extra("related_pair_fraction", fmt.Sprintf("%.3f", frac))
	if frac < 0.30 {
		rec.Inconclusive(t, "only %.1f%% of the pairs are related (target >= 30%%)", 100*frac)
	}
	requireClasses(t, rec, "triple:premise-true/chain", "triple:premise-true/pool", "outcome:subtype", "outcome:not-subtype",
		"sub-root:reference", "sub-root:intersection", "sub-root:function", "super-root:intersection", "super-root:interface",
		"super-root:capability", "super-root:range", "sub-root:attachment")
}

func (c *c08) randomPairs(u *tgen.Universe, g *tgen.Gen, r *rand.Rand, n int) {
	for i := 0; i < n; i++ {
		s := g.Type()
		var t sema.Type
		mode := ""
		switch k := r.Intn(20); {
		case k < 4:
			mode, t = "random", g.Type()
		case k < 11:
			mode, t = "weaken", g.Weaken(s)
		case k < 14:
			mode, t = "weaken2", g.Weaken(g.Weaken(s))
		case k < 17:
			mode = "strengthen"
			t = s
			s = g.Strengthen(t)
		case k < 18:
			mode = "copy"
			t2, err := u.Decode(tgen.Encode(s))
			if err != nil {
				c.t.Fatalf("codec: %v", err)
			}
			t = t2
		case k < 19:
			mode, t = "never", s
			s = sema.NeverType
		default:
			mode, t = "any", sema.AnyType
		}
		c.checkPair(u, s, t, mode)
		if mode == "weaken" && i%4 == 0 {
			// the converse direction of a related pair is the interesting "must be false" case
			c.checkPair(u, t, s, "converse")
		}
	}
}

func (c *c08) chains(u *tgen.Universe, g *tgen.Gen, r *rand.Rand, n int) {
	for i := 0; i < n; i++ {
		s := g.TypeD(3)
		t := g.Weaken(s)
		x := g.Weaken(t)
		c.checkTriple(u, s, t, x, "chain")
	}
}

// poolTriples builds pools of mutually related types (a seed type, its
// weakenings and strengthenings) and checks all ordered triples of each pool.
func (c *c08) poolTriples(u *tgen.Universe, g *tgen.Gen, r *rand.Rand, n int) {
	const poolSize = 12
	for done := 0; done < n; {
		seedT := g.TypeD(3)
		pool := []sema.Type{seedT, sema.NeverType}
		for len(pool) < poolSize {
			b := pool[r.Intn(len(pool))]
			var nt sema.Type
			if r.Intn(3) == 0 {
				nt = g.Strengthen(b)
			} else {
				nt = g.Weaken(b)
			}
			pool = append(pool, nt)
		}
		// relation matrix once, then triples from the matrix
		var m [poolSize][poolSize]bool
		for i := range pool {
			for j := range pool {
				m[i][j] = sub(pool[i], pool[j])
			}
		}
		for i := range pool {
			for j := range pool {
				if i == j || !m[i][j] {
					continue
				}
				for k := range pool {
					if k == j || !m[j][k] {
						continue
					}
					done++
					if m[i][k] {
						nt := !pool[i].Equal(pool[j]) && !pool[j].Equal(pool[k])
						c.rec.CaseH(nt, evid.Hash("t", u.Seed, pool[i].ID(), pool[j].ID(), pool[k].ID()))
						c.rec.Class("triple:premise-true/pool")
						continue
					}
					c.checkTriple(u, pool[i], pool[j], pool[k], "pool")
				}
			}
		}
	}
}

// closedSet checks all ordered pairs (and the triples over the resulting
// matrix) of a deterministic closed set of types.
func (c *c08) closedSet(u *tgen.Universe, size int) {
	set := tgen.ClosedSet(u, size)
	n := len(set)
	m := make([][]bool, n)
	for i := range set {
		m[i] = make([]bool, n)
		for j := range set {
			m[i][j] = c.checkPair(u, set[i], set[j], "closed").r[0]
		}
	}
	var triples int64
	for i := 0; i < n; i++ {
		for j := 0; j < n; j++ {
			if i == j || !m[i][j] {
				continue
			}
			for k := 0; k < n; k++ {
				if k == j || !m[j][k] {
					continue
				}
				triples++
				if !m[i][k] {
					c.checkTriple(u, set[i], set[j], set[k], "closed")
				}
			}
		}
	}
	c.rec.Evals(triples)
	c.rec.Extra("closed_set", map[string]any{"universe": u.Seed, "types": n, "ordered_pairs": n * n, "related_triples_checked": triples,
		"note": "all ordered pairs of the closed set were evaluated by all five relations; all triples with both premises true were checked for transitivity"})
}
