package types

import (
	"errors"
	"fmt"
	"math/rand"
	"strings"
	"testing"

	"github.com/onflow/cadence"
	"github.com/onflow/cadence/common"
	cdcerrors "github.com/onflow/cadence/errors"
	"github.com/onflow/cadence/interpreter"
	"github.com/onflow/cadence/runtime"
	"github.com/onflow/cadence/sema"

	"verif/lib/evid"
	"verif/lib/host"
	"verif/lib/tgen"
)

// c45Case is the replay format of C45.
type c45Case struct {
	Part     string    `json:"part"` // "type" | "location" | "script"
	Universe int64     `json:"universe,omitempty"`
	T        *tgen.Enc `json:"t,omitempty"`
	TID      string    `json:"t_id,omitempty"`
	// locations
	LocKind string `json:"loc_kind,omitempty"`
	LocName string `json:"loc_name,omitempty"`
	LocHex  string `json:"loc_hex,omitempty"`
	QID     string `json:"qualified_identifier,omitempty"`
	// scripts
	Source string `json:"source,omitempty"`
}

type c45 struct {
	t   *testing.T
	rec *evid.Rec
}

func nontrivialType(t sema.Type) bool {
	return tgen.Has(t, func(x sema.Type) bool {
		switch x := x.(type) {
		case *sema.ReferenceType:
			return x.Authorization != sema.UnauthorizedAccess
		case *sema.IntersectionType:
			return len(x.Types) >= 2
		case *sema.CompositeType:
			_, isAddr := x.Location.(common.AddressLocation)
			return x.Location != nil && !isAddr
		case *sema.InterfaceType:
			_, isAddr := x.Location.(common.AddressLocation)
			return x.Location != nil && !isAddr
		}
		return false
	})
}

// notImportable: function types (and types containing them) are not importable
// by design: ImportType may refuse them, but only with a cadence *user* error
// (FT4, fixed: it used to panic with a plain string, i.e. an internal error, and
// also refused attachment types, which must now round-trip).
func notImportable(t sema.Type) bool {
	return tgen.Has(t, func(x sema.Type) bool {
		_, ok := x.(*sema.FunctionType)
		return ok
	})
}

// importType calls runtime.ImportType and classifies a panic: userErr is true
// when the panic value is an error implementing errors.UserError.
func importType(ex cadence.Type) (im interpreter.StaticType, panicked any, userErr bool) {
	defer func() {
		if r := recover(); r != nil {
			panicked = r
			if e, ok := r.(error); ok {
				var ue cdcerrors.UserError
				userErr = errors.As(e, &ue)
			}
		}
	}()
	return runtime.ImportType(nil, ex), nil, false
}

// typeProblem checks one type; "" when everything in the statement holds.
func (c *c45) typeProblem(u *tgen.Universe, t sema.Type) string {
	want := tgen.RefID(t)
	var problem string
	p := guard(func() {
		if got := string(t.ID()); got != want {
			problem = fmt.Sprintf("checker ID %q, expected %q", got, want)
			return
		}
		st := interpreter.ConvertSemaToStaticType(nil, t)
		if st == nil {
			problem = "ConvertSemaToStaticType returned nil"
			return
		}
		if got := string(st.ID()); got != want {
			problem = fmt.Sprintf("static type ID %q, expected %q", got, want)
			return
		}
		back, err := interpreter.ConvertStaticToSemaType(u.Inter, st)
		if err != nil {
			problem = fmt.Sprintf("ConvertStaticToSemaType failed: %v", err)
			return
		}
		if !back.Equal(t) || !t.Equal(back) {
			problem = fmt.Sprintf("checker -> static -> checker gives %q, not Equal to the original", back.ID())
			return
		}
		if got := string(back.ID()); got != want {
			problem = fmt.Sprintf("checker -> static -> checker changes the ID to %q", got)
			return
		}
		// static -> checker -> static
		st2 := interpreter.ConvertSemaToStaticType(nil, back)
		if !st2.Equal(st) {
			problem = fmt.Sprintf("static -> checker -> static gives %q, not Equal", st2.ID())
			return
		}
		if tgen.Exportable(t) {
			ex := runtime.ExportType(t, map[sema.TypeID]cadence.Type{})
			if ex == nil {
				problem = "ExportType returned nil"
				return
			}
			if got := ex.ID(); got != want {
				problem = fmt.Sprintf("exported type ID %q, expected %q", got, want)
				return
			}
			c.rec.Class("exported")
			im, panicked, userErr := importType(ex)
			switch {
			case panicked != nil && notImportable(t) && userErr:
				c.rec.Class("import-not-supported")
			case panicked != nil:
				problem = fmt.Sprintf("ImportType(ExportType(t)) panicked with %T %v (user error: %v)", panicked, panicked, userErr)
				return
			case im == nil || !im.Equal(st) || string(im.ID()) != want:
				problem = fmt.Sprintf("ImportType(ExportType(t)) = %v is not Equal to the static type", im)
				return
			default:
				c.rec.Class("imported")
				if tgen.Has(t, func(x sema.Type) bool {
					cc, ok := x.(*sema.CompositeType)
					return ok && cc.Kind == common.CompositeKindAttachment
				}) {
					c.rec.Class("imported-attachment")
				}
			}
		}
		// nominal components decode to what they were built from
		var np string
		tgen.Has(t, func(x sema.Type) bool {
			if np != "" {
				return true
			}
			switch x := x.(type) {
			case *sema.CompositeType:
				np = decodeProblem(x.Location, x.QualifiedIdentifier(), string(x.ID()))
			case *sema.InterfaceType:
				np = decodeProblem(x.Location, x.QualifiedIdentifier(), string(x.ID()))
			case *sema.IntersectionType:
				for _, i := range x.Types {
					if np == "" {
						np = decodeProblem(i.Location, i.QualifiedIdentifier(), string(i.ID()))
					}
				}
			case *sema.ReferenceType:
				if s, ok := x.Authorization.(sema.EntitlementSetAccess); ok {
					s.Entitlements.Foreach(func(e *sema.EntitlementType, _ struct{}) {
						if np == "" {
							np = decodeProblem(e.Location, e.QualifiedIdentifier(), string(e.ID()))
						}
					})
				}
			}
			return false
		})
		problem = np
	})
	if p != "" {
		return "panic: " + p
	}
	return problem
}

// decodeProblem: DecodeTypeID(id) must give back (location, qualified identifier),
// and location.TypeID(qualified identifier) must be id.
func decodeProblem(loc common.Location, qid string, id string) string {
	if want := tgen.RefLocationTypeID(loc, qid); id != want {
		return fmt.Sprintf("type ID %q, expected %q", id, want)
	}
	gotLoc, gotQID, err := common.DecodeTypeID(nil, id)
	if err != nil {
		return fmt.Sprintf("DecodeTypeID(%q) failed: %v", id, err)
	}
	if gotLoc != loc || gotQID != qid {
		return fmt.Sprintf("DecodeTypeID(%q) = (%#v, %q), built from (%#v, %q)", id, gotLoc, gotQID, loc, qid)
	}
	if loc != nil {
		if back := string(loc.TypeID(nil, qid)); back != id {
			return fmt.Sprintf("location.TypeID(%q) = %q, not %q", qid, back, id)
		}
		if q := loc.QualifiedIdentifier(common.TypeID(id)); q != qid {
			return fmt.Sprintf("location.QualifiedIdentifier(%q) = %q, not %q", id, q, qid)
		}
	}
	return ""
}

func (c *c45) checkType(u *tgen.Universe, t sema.Type) {
	nt := nontrivialType(t)
	c.rec.CaseH(nt, evid.Hash("type", u.Seed, t.ID()))
	if nt {
		addClasses(c.rec, "", t)
		label := "type/" + tgen.Kind(t)
		if c.rec.WantSample(label) {
			c.rec.Sample(label, map[string]any{"universe": u.Seed, "id": tgen.RefID(t)})
		}
	}
	if msg := c.typeProblem(u, t); msg != "" {
		// shrink
		cur := t
		for round := 0; round < 100; round++ {
			improved := false
			for _, s := range tgen.Simplify(cur) {
				if s != sema.IntType && s != sema.AnyStructType && c.typeProblem(u, s) != "" {
					cur, improved = s, true
					break
				}
			}
			if !improved {
				break
			}
		}
		c.rec.Violation(c.t, c45Case{Part: "type", Universe: u.Seed, T: tgen.Encode(cur), TID: tgen.RefID(cur)},
			"universe %d: type %s: %s (found as %s: %s)", u.Seed, tgen.RefID(cur), c.typeProblem(u, cur), tgen.RefID(t), msg)
	}
}

// ---- locations -------------------------------------------------------------------------

var identChars = "abcdefghijklmnopqrstuvwxyzABCDEFGHIJKLMNOPQRSTUVWXYZ_0123456789"

func randIdent(r *rand.Rand) string {
	n := 1 + r.Intn(6)
	b := make([]byte, n)
	for i := range b {
		if i == 0 {
			b[i] = identChars[r.Intn(53)]
		} else {
			b[i] = identChars[r.Intn(len(identChars))]
		}
	}
	return string(b)
}

// knownFT3: string locations containing '.' do not decode (ambiguous format).
var knownFT3 bool

func dottedStringLocation(loc common.Location) bool {
	s, ok := loc.(common.StringLocation)
	return ok && strings.Contains(string(s), ".")
}

func (c *c45) checkLocation(r *rand.Rand) {
	var loc common.Location
	var cs c45Case
	cs.Part = "location"
	depth := 1 + r.Intn(3)
	ids := make([]string, depth)
	for i := range ids {
		ids[i] = randIdent(r)
	}
	kind := r.Intn(6)
	switch kind {
	case 0:
		var a common.Address
		switch r.Intn(4) {
		case 0: // leading zeros
			a[7] = byte(r.Intn(256))
		case 1:
			a[0] = byte(r.Intn(256))
		default:
			r.Read(a[:])
		}
		loc = common.AddressLocation{Address: a, Name: ids[0]}
		cs.LocKind, cs.LocHex, cs.LocName = "address", a.Hex(), ids[0]
	case 1:
		pool := []string{randIdent(r), "a/b", "file name", "x-y", "", "ünï", "0", randIdent(r) + ".cdc", "a.b.c", "../x.cdc"}
		s := pool[r.Intn(len(pool))]
		loc = common.StringLocation(s)
		cs.LocKind, cs.LocName = "string", s
	case 2:
		s := randIdent(r)
		loc = common.IdentifierLocation(s)
		cs.LocKind, cs.LocName = "identifier", s
	case 3:
		var l common.TransactionLocation
		if r.Intn(3) > 0 {
			r.Read(l[:])
		} else {
			l[31] = byte(r.Intn(256))
		}
		loc = l
		cs.LocKind, cs.LocHex = "transaction", fmt.Sprintf("%x", l[:])
	case 4:
		var l common.ScriptLocation
		if r.Intn(3) > 0 {
			r.Read(l[:])
		} else {
			l[0] = byte(r.Intn(256))
		}
		loc = l
		cs.LocKind, cs.LocHex = "script", fmt.Sprintf("%x", l[:])
	default:
		loc = common.REPLLocation{}
		cs.LocKind = "repl"
	}
	qid := strings.Join(ids, ".")
	cs.QID = qid
	if knownFT3 && dottedStringLocation(loc) {
		c.rec.Excluded("FT3")
		return
	}
	// build the nominal types the way the checker does: nested container types
	var container sema.Type
	var comp *sema.CompositeType
	for i, id := range ids {
		k := common.CompositeKindStructure
		if i < len(ids)-1 {
			k = common.CompositeKindContract
		}
		comp = &sema.CompositeType{Location: loc, Identifier: id, Kind: k, Members: &sema.StringMemberOrderedMap{}}
		if container != nil {
			comp.SetContainerType(container)
		}
		container = comp
	}
	iface := &sema.InterfaceType{Location: loc, Identifier: ids[len(ids)-1], CompositeKind: common.CompositeKindStructure, Members: &sema.StringMemberOrderedMap{}}
	if comp.GetContainerType() != nil {
		iface.SetContainerType(comp.GetContainerType())
	}
	_, isAddr := loc.(common.AddressLocation)
	c.rec.CaseH(!isAddr, evid.Hash("loc", cs.LocKind, cs.LocName, cs.LocHex, qid))
	c.rec.Class("location:" + cs.LocKind)
	c.rec.Class(fmt.Sprintf("qualified-identifier-depth:%d", depth))
	if c.rec.WantSample("location:" + cs.LocKind) {
		c.rec.Sample("location:"+cs.LocKind, map[string]any{"kind": cs.LocKind, "name": cs.LocName, "hex": cs.LocHex, "qualified_identifier": qid,
			"type_id": tgen.RefLocationTypeID(loc, qid)})
	}
	var problem string
	p := guard(func() {
		want := tgen.RefLocationTypeID(loc, qid)
		if comp.QualifiedIdentifier() != qid {
			problem = fmt.Sprintf("qualified identifier %q, expected %q", comp.QualifiedIdentifier(), qid)
			return
		}
		if problem = decodeProblem(loc, qid, string(comp.ID())); problem != "" {
			return
		}
		if problem = decodeProblem(loc, qid, string(iface.ID())); problem != "" {
			return
		}
		st := interpreter.ConvertSemaToStaticType(nil, comp)
		if string(st.ID()) != want {
			problem = fmt.Sprintf("static composite ID %q, expected %q", st.ID(), want)
			return
		}
		sti := interpreter.ConvertSemaToStaticType(nil, iface)
		if string(sti.ID()) != want {
			problem = fmt.Sprintf("static interface ID %q, expected %q", sti.ID(), want)
			return
		}
		ex := runtime.ExportType(comp, map[sema.TypeID]cadence.Type{})
		if ex.ID() != want {
			problem = fmt.Sprintf("exported composite ID %q, expected %q", ex.ID(), want)
			return
		}
		im := runtime.ImportType(nil, ex)
		if !im.Equal(st) || string(im.ID()) != want {
			problem = fmt.Sprintf("ImportType(ExportType(t)) = %q, expected %q", im.ID(), want)
			return
		}
		// computed static type IDs (as used by ImportType) agree
		cst := interpreter.NewCompositeStaticTypeComputeTypeID(nil, loc, qid)
		if string(cst.ID()) != want {
			problem = fmt.Sprintf("NewCompositeStaticTypeComputeTypeID gives %q, expected %q", cst.ID(), want)
		}
	})
	if p != "" {
		problem = "panic: " + p
	}
	if problem != "" {
		c.rec.Violation(c.t, cs, "location %s %q %s, qualified identifier %q: %s", cs.LocKind, cs.LocName, cs.LocHex, qid, problem)
	}
}

// ---- scripts: run-time type constructors ------------------------------------------------

// ctorExpr builds t through the run-time type constructors where one exists for
// the root (recursively), falling back to the `Type<T>()` literal. used reports
// which constructors occur.
func ctorExpr(t sema.Type, used map[string]bool) string {
	lit := func() string { return "Type<" + tgen.Annotation(t) + ">()" }
	switch t := t.(type) {
	case *sema.OptionalType:
		used["OptionalType"] = true
		return "OptionalType(" + ctorExpr(t.Type, used) + ")"
	case *sema.VariableSizedType:
		used["VariableSizedArrayType"] = true
		return "VariableSizedArrayType(" + ctorExpr(t.Type, used) + ")"
	case *sema.ConstantSizedType:
		used["ConstantSizedArrayType"] = true
		return fmt.Sprintf("ConstantSizedArrayType(type: %s, size: %d)", ctorExpr(t.Type, used), t.Size)
	case *sema.DictionaryType:
		used["DictionaryType"] = true
		return "DictionaryType(key: " + ctorExpr(t.KeyType, used) + ", value: " + ctorExpr(t.ValueType, used) + ")!"
	case *sema.ReferenceType:
		var ids []string
		switch a := t.Authorization.(type) {
		case sema.EntitlementSetAccess:
			if a.SetKind != sema.Conjunction {
				return lit()
			}
			a.Entitlements.Foreach(func(k *sema.EntitlementType, _ struct{}) { ids = append(ids, fmt.Sprintf("%q", tgen.RefID(k))) })
		case sema.PrimitiveAccess:
		default:
			return lit()
		}
		used["ReferenceType"] = true
		return "ReferenceType(entitlements: [" + strings.Join(ids, ", ") + "], type: " + ctorExpr(t.Type, used) + ")!"
	case *sema.CapabilityType:
		if t.BorrowType == nil {
			return lit()
		}
		used["CapabilityType"] = true
		return "CapabilityType(" + ctorExpr(t.BorrowType, used) + ")!"
	case *sema.InclusiveRangeType:
		if t.MemberType == nil {
			return lit()
		}
		used["InclusiveRangeType"] = true
		return "InclusiveRangeType(" + ctorExpr(t.MemberType, used) + ")!"
	case *sema.IntersectionType:
		ids := make([]string, len(t.Types))
		for i, x := range t.Types {
			ids[i] = fmt.Sprintf("%q", tgen.RefID(x))
		}
		used["IntersectionType"] = true
		return "IntersectionType(types: [" + strings.Join(ids, ", ") + "])!"
	case *sema.FunctionType:
		if t.Purity == sema.FunctionPurityView {
			return lit()
		}
		// the parameter types are passed in an array, and a type value of a function
		// type cannot be an array element (it has no stored encoding)
		for _, p := range t.Parameters {
			if tgen.Has(p.TypeAnnotation.Type, func(x sema.Type) bool { _, ok := x.(*sema.FunctionType); return ok }) {
				return lit()
			}
		}
		ps := make([]string, len(t.Parameters))
		for i, p := range t.Parameters {
			ps[i] = ctorExpr(p.TypeAnnotation.Type, used)
		}
		ret := "Type<Void>()"
		if t.ReturnTypeAnnotation.Type != nil {
			ret = ctorExpr(t.ReturnTypeAnnotation.Type, used)
		}
		used["FunctionType"] = true
		return "FunctionType(parameters: [" + strings.Join(ps, ", ") + "], return: " + ret + ")"
	case *sema.CompositeType:
		if t.Location != nil {
			used["CompositeType"] = true
			return fmt.Sprintf("CompositeType(%q)!", tgen.RefID(t))
		}
	}
	return lit()
}

type scriptUniverse struct {
	u *tgen.Universe
	h *host.Host
}

func newScriptUniverse(seed int64) (*scriptUniverse, error) {
	progs := tgen.UniverseSources(seed)[:3] // the contracts; the string-location program cannot be deployed
	u, err := tgen.BuildUniverse(seed, progs)
	if err != nil {
		return nil, err
	}
	h := host.New()
	for _, p := range progs {
		al := p.Location.(common.AddressLocation)
		if res := h.Deploy(al.Address, al.Name, p.Source, host.Interp); res.Err != nil || res.Panic != nil {
			return nil, fmt.Errorf("deploy %s: %v %v", al.Name, res.Err, res.Panic)
		}
	}
	return &scriptUniverse{u: u, h: h}, nil
}

func (c *c45) scriptBatch(su *scriptUniverse, types []sema.Type) {
	var sb strings.Builder
	sb.WriteString(su.u.ContractImports())
	sb.WriteString("access(all) fun main(): [String] {\n    let out: [String] = []\n")
	usedAll := make([]map[string]bool, len(types))
	for i, t := range types {
		used := map[string]bool{}
		usedAll[i] = used
		e := ctorExpr(t, used)
		fmt.Fprintf(&sb, "    if true {\n        let a = Type<%s>()\n        let b = %s\n        out.append(a.identifier)\n        out.append(b.identifier)\n        out.append(a == b ? \"eq\" : \"ne\")\n    }\n",
			tgen.Annotation(t), e)
	}
	sb.WriteString("    return out\n}\n")
	src := sb.String()
	var results [2][]string
	for ei, eng := range host.Engines {
		res := su.h.Script(src, nil, host.Options{Engine: eng})
		if res.Err != nil || res.Panic != nil {
			c.rec.Violation(c.t, c45Case{Part: "script", Universe: su.u.Seed, Source: src}, "universe %d %v: type constructor script failed: %v %v", su.u.Seed, eng, res.Err, res.Panic)
		}
		arr, ok := res.Value.(cadence.Array)
		if !ok || len(arr.Values) != 3*len(types) {
			c.rec.Violation(c.t, c45Case{Part: "script", Universe: su.u.Seed, Source: src}, "universe %d %v: unexpected script result %v", su.u.Seed, eng, res.Value)
		}
		for _, v := range arr.Values {
			results[ei] = append(results[ei], string(v.(cadence.String)))
		}
	}
	for i, t := range types {
		want := tgen.RefID(t)
		nt := nontrivialType(t)
		c.rec.CaseH(nt, evid.Hash("script", su.u.Seed, t.ID()))
		for k := range usedAll[i] {
			c.rec.Class("constructor:" + k)
		}
		if len(usedAll[i]) == 0 {
			c.rec.Class("constructor:none(Type<T>() only)")
		}
		if nt && c.rec.WantSample("script/"+tgen.Kind(t)) {
			c.rec.Sample("script/"+tgen.Kind(t), map[string]any{"universe": su.u.Seed, "written": "Type<" + tgen.Annotation(t) + ">()", "constructed": ctorExpr(t, map[string]bool{}), "identifier": want})
		}
		for ei, eng := range host.Engines {
			lit, built, eq := results[ei][3*i], results[ei][3*i+1], results[ei][3*i+2]
			if lit != want || built != want || eq != "eq" {
				one := su.u.ContractImports() + fmt.Sprintf("access(all) fun main(): [String] {\n    let a = Type<%s>()\n    let b = %s\n    return [a.identifier, b.identifier, a == b ? \"eq\" : \"ne\"]\n}\n",
					tgen.Annotation(t), ctorExpr(t, map[string]bool{}))
				c.rec.Violation(c.t, c45Case{Part: "script", Universe: su.u.Seed, T: tgen.Encode(t), TID: want, Source: one},
					"universe %d %v: Type<%s>().identifier = %q, constructed %s .identifier = %q, equal: %s; expected identifier %q",
					su.u.Seed, eng, tgen.Annotation(t), lit, ctorExpr(t, map[string]bool{}), built, eq, want)
			}
		}
	}
}

// ---- test ---------------------------------------------------------------------------------

func TestC45(t *testing.T) {
	rec := evid.Start(t, "C45", "types drawn by lib/tgen over checked universes (all location kinds for nominal types): the checker ID, the static-type ID and the "+
		"exported ID must equal an independently written reference ID; checker->static->checker and static->checker->static conversions give Equal types; "+
		"ImportType(ExportType(t)) is Equal to the static type (importable fragment); every nominal type ID decodes (DecodeTypeID) to the location and qualified "+
		"identifier it was built from and location.TypeID / QualifiedIdentifier invert each other, for generated locations of every kind (addresses with leading "+
		"zeros, string/identifier names, transaction/script hashes, REPL) and nested qualified identifiers; scripts on both engines: a type built with the run-time "+
		"constructors (OptionalType, VariableSizedArrayType, ConstantSizedArrayType, DictionaryType, ReferenceType, CompositeType, IntersectionType, CapabilityType, "+
		"FunctionType, InclusiveRangeType, nested) equals Type<T>() of the written type and both identifiers equal the reference ID. "+
		"Non-trivial: the type has an authorization set, an intersection with >= 2 members, or a nominal type at a non-address location. Distinct by (universe, type ID).")
	c := &c45{t: t, rec: rec}
	if rec.Known("FT3") {
		_, qid, _ := common.DecodeTypeID(nil, string(common.StringLocation("a.cdc").TypeID(nil, "S")))
		rec.ReportKnown("FT3", qid != "S")
		knownFT3 = true
	}
	// regression inputs of the fixed finding FT4: attachment types must round-trip
	// through ExportType/ImportType, a function type may only be refused with a user error
	if evid.ReplayFile() == "" {
		u0 := tgen.NewUniverse(0)
		c.checkType(u0, u0.StructAttachments[0])
		c.checkType(u0, sema.NewReferenceType(nil, sema.UnauthorizedAccess, u0.ResourceAttachments[0]))
		c.checkType(u0, sema.NewSimpleFunctionType(sema.FunctionPurityImpure, nil, sema.VoidTypeAnnotation))
	}

	if f := evid.ReplayFile(); f != "" {
		var cs c45Case
		if err := evid.LoadReplay(f, &cs); err != nil {
			t.Fatalf("bad replay file: %v", err)
		}
		c.replay(cs)
		return
	}

	seeds := universeSeeds(evid.N(2, 6))
	per := evid.N(50_000, 1_000_000) / len(seeds)
	for _, seed := range seeds {
		u := tgen.NewUniverse(seed)
		r := evid.Rand(4500 + seed)
		g := tgen.NewGen(u, tgen.RandSrc{R: r}, tgen.Options{MaxDepth: 4})
		for i := 0; i < per; i++ {
			c.checkType(u, g.Type())
		}
	}
	r := evid.Rand(4599)
	for i := 0; i < evid.N(30_000, 500_000); i++ {
		c.checkLocation(r)
	}
	// scripts
	nScriptU := 4
	perU := evid.N(2000, 20_000) / nScriptU
	const batch = 50
	for k := 0; k < nScriptU; k++ {
		seed := seeds[(k+int(evid.Seed()))%len(seeds)]
		su, err := newScriptUniverse(seed)
		if err != nil {
			rec.Inconclusive(t, "script universe %d: %v", seed, err)
		}
		r := evid.Rand(4700 + seed)
		g := tgen.NewGen(su.u, tgen.RandSrc{R: r}, tgen.Options{MaxDepth: 3, Denotable: true})
		for done := 0; done < perU; done += batch {
			types := make([]sema.Type, batch)
			for i := range types {
				types[i] = g.Type()
			}
			c.scriptBatch(su, types)
		}
	}
	requireClasses(t, rec, "exported", "imported", "imported-attachment", "import-not-supported", "location:address", "location:string", "location:identifier", "location:transaction", "location:script",
		"location:repl", "constructor:OptionalType", "constructor:VariableSizedArrayType", "constructor:ConstantSizedArrayType", "constructor:DictionaryType",
		"constructor:ReferenceType", "constructor:CompositeType", "constructor:IntersectionType", "constructor:CapabilityType", "constructor:FunctionType",
		"constructor:InclusiveRangeType", "has-authorization", "has-intersection", "has-disjunction")
}

func (c *c45) replay(cs c45Case) {
	switch cs.Part {
	case "type":
		u := tgen.NewUniverse(cs.Universe)
		ty, err := u.Decode(cs.T)
		if err != nil {
			c.t.Fatalf("bad replay type: %v", err)
		}
		c.checkType(u, ty)
	case "script":
		su, err := newScriptUniverse(cs.Universe)
		if err != nil {
			c.t.Fatalf("script universe: %v", err)
		}
		ty, err := su.u.Decode(cs.T)
		if err != nil {
			c.t.Fatalf("bad replay type: %v", err)
		}
		c.scriptBatch(su, []sema.Type{ty})
	default:
		c.t.Skip("location cases are regenerated from the seed; re-run the check with the same VERIF_SEED")
	}
}
