package types

import (
	"errors"
	"fmt"
	"strings"
	"testing"

	"github.com/onflow/cadence/ast"
	"github.com/onflow/cadence/common"
	"github.com/onflow/cadence/sema"

	"verif/lib/evid"
	"verif/lib/host"
)

// ---- the enumerated space -----------------------------------------------------------------

type c50Mod struct {
	Name string // label
	Src  string // access modifier source (inside contract C1)
	Kind int    // 0 self, 1 contract, 2 account, 3 all, 4 entitlement
	Req  mAuth  // entitlement requirement (Kind 4)
}

var c50Mods = []c50Mod{
	{"self", "access(self)", 0, mAuth{}},
	{"contract", "access(contract)", 1, mAuth{}},
	{"account", "access(account)", 2, mAuth{}},
	{"all", "access(all)", 3, mAuth{}},
	{"E0", "access(E0)", 4, mAuth{kConj, 1}},
	{"E0|E1", "access(E0 | E1)", 4, mAuth{kDisj, 3}},
	{"E0,E1", "access(E0, E1)", 4, mAuth{kConj, 3}},
}

// declaring composites
const (
	dStruct   = "S"
	dResource = "R"
	dContract = "C1"
)

// scopes of the probe site
var c50Scopes = []string{
	"same-composite",      // a function of the declaring composite
	"sibling-composite",   // a function of another composite of the same contract
	"contract-function",   // the enclosing contract's own function (declaring composite nested in it)
	"nested-in-declaring", // a function of a composite nested in the declaring contract (declaring = the contract)
	"other-contract-same-account",
	"other-contract-other-account",
	"transaction",
	"script",
}

// receivers: "owned", "self", or a reference authorization
type c50Recv struct {
	Kind string // "owned" | "self" | "ref"
	Auth mAuth
}

func c50Receivers() []c50Recv {
	out := []c50Recv{{Kind: "owned"}, {Kind: "self"}, {Kind: "ref", Auth: mAuth{Kind: kUnauth}}}
	for _, a := range []mAuth{{kConj, 1}, {kConj, 2}, {kConj, 3}, {kDisj, 3}, {kConj, 4}} {
		out = append(out, c50Recv{Kind: "ref", Auth: a})
	}
	return out
}

func (r c50Recv) String() string {
	if r.Kind == "ref" {
		return r.Auth.RefPrefix("") + "&"
	}
	return r.Kind
}

// c50Case is one probe (also the replay format).
type c50Case struct {
	Declaring string  `json:"declaring"` // S | R | C1
	Mod       int     `json:"modifier"`  // index into c50Mods
	Member    string  `json:"member"`    // "let" | "var" | "fun"
	Probe     string  `json:"probe"`     // read | call | assign | init-second | init-second-branch
	Scope     int     `json:"scope"`
	Recv      c50Recv `json:"receiver"`
	Shape     int     `json:"shape,omitempty"` // declaration shape (see c50Shape)
	// filled for reports
	Line    string `json:"probe_line,omitempty"`
	Program string `json:"program,omitempty"`
}

func (c c50Case) String() string {
	return fmt.Sprintf("%s %s member of %s, probe %s from %s via %s", c50Mods[c.Mod].Src, c.Member, c.Declaring, c.Probe, c50Scopes[c.Scope], c.Recv)
}

// ---- independent scope model --------------------------------------------------------------------

// lexicallyInside: is the probe site inside the body of the declaring composite
// (nested declarations are part of the body)?
func lexicallyInside(declaring string, scope int) bool {
	if declaring == dContract {
		return scope <= 3 // everything written inside contract C1
	}
	return scope == 0
}

func c50ReadAllowed(c c50Case) bool {
	m := c50Mods[c.Mod]
	switch m.Kind {
	case 0:
		return lexicallyInside(c.Declaring, c.Scope)
	case 1:
		return c.Scope <= 3 // same outermost contract
	case 2:
		return c.Scope <= 4 // code deployed to the same account
	case 3:
		return true
	default:
		if c.Recv.Kind != "ref" {
			return true // an owned value / self is fully authorized
		}
		return leq(c.Recv.Auth, m.Req)
	}
}

func c50Allowed(c c50Case) bool {
	switch c.Probe {
	case "read", "call":
		return c50ReadAllowed(c)
	case "assign":
		return c50ReadAllowed(c) && lexicallyInside(c.Declaring, c.Scope) && c.Member == "var"
	case "init-second", "init-second-branch":
		return c.Member == "var"
	}
	panic("unknown probe " + c.Probe)
}

// ---- program text -----------------------------------------------------------------------------------

// c50Shape varies the declarations around the same case space (thorough tier):
// 0 = Int members in modifier order; 1 = String members; 2 = functions first and
// members in reverse modifier order.
var c50Shape = 0

func c50FieldType() string {
	if c50Shape == 1 {
		return "String"
	}
	return "Int"
}

func c50Value(v int) string {
	if c50Shape == 1 {
		return fmt.Sprintf("\"s%d\"", v)
	}
	return fmt.Sprint(v)
}

func c50Members(declaring string, sb *strings.Builder, indent string) {
	p := "" // member name prefix
	if declaring == dContract {
		p = "c"
	}
	ty := c50FieldType()
	order := make([]int, 0, len(c50Mods))
	for k, m := range c50Mods {
		if declaring == dContract && m.Kind == 4 {
			continue
		}
		order = append(order, k)
	}
	if c50Shape == 2 {
		for i, j := 0, len(order)-1; i < j; i, j = i+1, j-1 {
			order[i], order[j] = order[j], order[i]
		}
		for _, k := range order {
			fmt.Fprintf(sb, "%s%s fun %sf%d(): %s { return %s }\n", indent, c50Mods[k].Src, p, k, ty, c50Value(k))
		}
	}
	for _, k := range order {
		m := c50Mods[k]
		fmt.Fprintf(sb, "%s%s let %sl%d: %s\n", indent, m.Src, p, k, ty)
		fmt.Fprintf(sb, "%s%s var %sv%d: %s\n", indent, m.Src, p, k, ty)
		if c50Shape != 2 {
			fmt.Fprintf(sb, "%s%s fun %sf%d(): %s { return %s }\n", indent, m.Src, p, k, ty, c50Value(k))
		}
	}
}

func c50Inits(declaring string, sb *strings.Builder, indent string) {
	for k, m := range c50Mods {
		if declaring == dContract && m.Kind == 4 {
			continue
		}
		p := ""
		if declaring == dContract {
			p = "c"
		}
		fmt.Fprintf(sb, "%sself.%sl%d = %s\n%sself.%sv%d = %s\n", indent, p, k, c50Value(0), indent, p, k, c50Value(0))
	}
}

// markers at which a probe line can be inserted
const (
	mkInitS     = "/*INIT-S*/"
	mkInitR     = "/*INIT-R*/"
	mkInitC     = "/*INIT-C*/"
	mkSameS     = "/*SITE-SAME-S*/"
	mkSameR     = "/*SITE-SAME-R*/"
	mkNestedS   = "/*SITE-NESTED-S*/"
	mkSibling   = "/*SITE-SIBLING*/"
	mkContract  = "/*SITE-CONTRACT*/"
	mkContract2 = "/*SITE-CONTRACT-FOR-MEMBERS*/"
)

func c50ContractC1() string {
	var sb strings.Builder
	sb.WriteString("access(all) contract C1 {\n")
	for i := 0; i < nEnt; i++ {
		fmt.Fprintf(&sb, "    access(all) entitlement E%d\n", i)
	}
	c50Members(dContract, &sb, "    ")
	for _, d := range []struct{ kw, name, mkInit, mkSame string }{{"struct", "S", mkInitS, mkSameS}, {"resource", "R", mkInitR, mkSameR}} {
		fmt.Fprintf(&sb, "    access(all) %s %s {\n", d.kw, d.name)
		c50Members(d.name, &sb, "        ")
		sb.WriteString("        init() {\n")
		c50Inits(d.name, &sb, "            ")
		fmt.Fprintf(&sb, "%s\n        }\n", d.mkInit)
		fmt.Fprintf(&sb, "        access(all) fun siteSame() {\n%s\n        }\n", d.mkSame)
		if d.name == "S" {
			fmt.Fprintf(&sb, "        access(all) fun siteNested() {\n%s\n        }\n", mkNestedS)
		}
		sb.WriteString("    }\n")
	}
	fmt.Fprintf(&sb, "    access(all) struct Sib {\n        access(all) fun site() {\n%s\n        }\n    }\n", mkSibling)
	sb.WriteString("    access(all) fun makeS(): S { return S() }\n")
	sb.WriteString("    access(all) fun makeR(): @R { return <- create R() }\n")
	fmt.Fprintf(&sb, "    access(all) fun contractSite() {\n%s\n    }\n", mkContract)
	fmt.Fprintf(&sb, "    access(all) fun contractSiteForMembers() {\n%s\n    }\n", mkContract2)
	sb.WriteString("    init() {\n")
	c50Inits(dContract, &sb, "        ")
	fmt.Fprintf(&sb, "%s\n    }\n}\n", mkInitC)
	return sb.String()
}

// probeLine builds the single probe line (setup; probe; teardown) and says at
// which column-independent position the probe is: the line itself.
func c50ProbeLine(c c50Case) (line string, ok bool) {
	k := c.Mod
	prefix := ""
	if c.Declaring == dContract {
		prefix = "c"
	}
	member := map[string]string{"let": "l", "var": "v", "fun": "f"}[c.Member]
	name := fmt.Sprintf("%s%s%d", prefix, member, k)

	var setup, recv, teardown string
	switch c.Declaring {
	case dContract:
		switch c.Recv.Kind {
		case "owned":
			recv = "C1"
		case "self":
			if c.Scope != 0 {
				return "", false
			}
			recv = "self"
		default:
			// a reference to the contract value (unauthorized and auth(E0) only: contract
			// members carry no entitlement modifiers here)
			if c.Recv.Auth.Kind != kUnauth {
				return "", false // contracts can only be borrowed unauthorized
			}
			setup = "let r = getAccount(0x1).contracts.borrow<&C1>(name: \"C1\")!; "
			recv = "r"
		}
	case dStruct, dResource:
		ty := "C1." + c.Declaring
		switch c.Recv.Kind {
		case "self":
			if c.Scope != 0 {
				return "", false
			}
			recv = "self"
		case "owned":
			if c.Declaring == dStruct {
				setup = "var v = C1.makeS(); "
			} else {
				setup = "let v <- C1.makeR(); "
				teardown = "; destroy v"
			}
			recv = "v"
		case "ref":
			if c.Declaring == dStruct {
				setup = "var v = C1.makeS(); "
			} else {
				setup = "let v <- C1.makeR(); "
				teardown = "; destroy v"
			}
			setup += fmt.Sprintf("let r = &v as %s&%s; ", c.Recv.Auth.RefPrefix("C1."), ty)
			recv = "r"
		}
	}
	switch c.Probe {
	case "read":
		return setup + "let x: " + c50FieldType() + " = " + recv + "." + name + teardown, true
	case "call":
		return setup + "let x: " + c50FieldType() + " = " + recv + "." + name + "()" + teardown, true
	case "assign":
		return setup + recv + "." + name + " = " + c50Value(7) + teardown, true
	case "init-second":
		return "self." + name + " = " + c50Value(9), true
	case "init-second-branch":
		return "if self." + prefix + "v3 == " + c50Value(0) + " { self." + name + " = " + c50Value(9) + " }", true
	}
	return "", false
}

// c50Program returns the program to check, its location, whether contract C1
// must be deployed for it, and the 1-based line number of the probe.
func c50Program(c c50Case, c1 string) (src string, loc common.Location, needC1 bool, line int, ok bool) {
	probe, ok := c50ProbeLine(c)
	if !ok {
		return "", nil, false, 0, false
	}
	inC1 := func(marker string) (string, common.Location, bool, int, bool) {
		i := strings.Index(c1, marker)
		if i < 0 {
			panic("marker " + marker)
		}
		line := 1 + strings.Count(c1[:i], "\n")
		return strings.Replace(c1, marker, probe, 1), common.AddressLocation{Address: host.Addr(1), Name: "C1"}, false, line, true
	}
	if strings.HasPrefix(c.Probe, "init-") {
		if c.Scope != 0 || c.Recv.Kind != "self" {
			return "", nil, false, 0, false
		}
		return inC1(map[string]string{dStruct: mkInitS, dResource: mkInitR, dContract: mkInitC}[c.Declaring])
	}
	switch c.Scope {
	case 0:
		return inC1(map[string]string{dStruct: mkSameS, dResource: mkSameR, dContract: mkContract2}[c.Declaring])
	case 1:
		if c.Declaring == dContract {
			return "", nil, false, 0, false // for contract members "nested-in-declaring" is the sibling-like site
		}
		return inC1(mkSibling)
	case 2:
		if c.Declaring == dContract {
			return "", nil, false, 0, false // that is scope 0 for contract members
		}
		return inC1(mkContract)
	case 3:
		if c.Declaring != dContract {
			return "", nil, false, 0, false
		}
		return inC1(mkNestedS)
	case 4:
		return "import C1 from 0x1\naccess(all) contract C2 {\n    access(all) fun site() {\n" + probe + "\n    }\n    init() {}\n}\n",
			common.AddressLocation{Address: host.Addr(1), Name: "C2"}, true, 4, true
	case 5:
		return "import C1 from 0x1\naccess(all) contract C3 {\n    access(all) fun site() {\n" + probe + "\n    }\n    init() {}\n}\n",
			common.AddressLocation{Address: host.Addr(2), Name: "C3"}, true, 4, true
	case 6:
		return "import C1 from 0x1\ntransaction {\n    execute {\n" + probe + "\n    }\n}\n", common.TransactionLocation{0x54}, true, 4, true
	case 7:
		return "import C1 from 0x1\naccess(all) fun main() {\n" + probe + "\n}\n", common.ScriptLocation{0x53}, true, 3, true
	}
	return "", nil, false, 0, false
}

// ---- judging ----------------------------------------------------------------------------------------

func checkerErrorsOf(err error) ([]error, bool) {
	if err == nil {
		return nil, true
	}
	var ce *sema.CheckerError
	if errors.As(err, &ce) {
		return ce.Errors, true
	}
	var ce2 sema.CheckerError
	if errors.As(err, &ce2) {
		return ce2.Errors, true
	}
	return nil, false
}

func isAccessOrAssignmentError(e error) bool {
	switch e.(type) {
	case *sema.InvalidAccessError, *sema.InvalidAssignmentAccessError, *sema.AssignmentToConstantMemberError, *sema.FieldReinitializationError:
		return true
	}
	return false
}

type c50 struct {
	t        *testing.T
	rec      *evid.Rec
	c1       string
	deployed *host.Host // C1 deployed
	bare     *host.Host // nothing deployed
}

func (c *c50) run(cs c50Case) (evaluated bool) {
	src, loc, needC1, line, ok := c50Program(cs, c.c1)
	if !ok {
		return false
	}
	probe, _ := c50ProbeLine(cs)
	cs.Line = probe
	h := c.bare
	if needC1 {
		h = c.deployed
	}
	err, panicked := h.Check(src, loc)
	want := c50Allowed(cs)
	nt := cs.Scope != 0 && c50Mods[cs.Mod].Kind != 3
	c.rec.Case(nt, cs.Shape, cs.Declaring, cs.Mod, cs.Member, cs.Probe, cs.Scope, cs.Recv.String())
	c.rec.Class("modifier:" + c50Mods[cs.Mod].Name)
	c.rec.Class("probe:" + cs.Probe + "/" + cs.Member)
	c.rec.Class("scope:" + c50Scopes[cs.Scope])
	c.rec.Class("receiver:" + cs.Recv.Kind)
	c.rec.Class("declaring:" + cs.Declaring)
	c.rec.Class(fmt.Sprintf("model-allows:%v", want))
	label := fmt.Sprintf("%s/%s/%v", c50Mods[cs.Mod].Name, cs.Probe, want)
	if nt && c.rec.WantSample(label) {
		c.rec.Sample(label, map[string]any{"case": cs.String(), "probe_line": probe, "model_allows": want})
	}
	fail := func(format string, a ...any) {
		cs.Program = src
		c.rec.Violation(c.t, cs, "%s: probe `%s`: %s", cs, probe, fmt.Sprintf(format, a...))
	}
	if panicked != nil {
		fail("the checker panicked: %v", panicked)
	}
	errs, isChecker := checkerErrorsOf(err)
	if !isChecker {
		cs.Program = src
		c.rec.Inconclusive(c.t, "%s: probe `%s` is not a checkable program: %v", cs, probe, err)
	}
	if want {
		if len(errs) > 0 {
			fail("the scope model allows it, the checker reports %d error(s): %v", len(errs), errs[0])
		}
		return true
	}
	if len(errs) == 0 {
		fail("the scope model forbids it, the checker accepts the program")
	}
	atProbe := false
	for _, e := range errs {
		hp, ok := e.(ast.HasPosition)
		if ok && hp.StartPosition().Line == line && isAccessOrAssignmentError(e) {
			atProbe = true
		}
	}
	if !atProbe {
		fail("rejected, but none of the %d error(s) is an access/assignment error at the probe (line %d): first %T %v", len(errs), line, errs[0], errs[0])
	}
	return true
}

func TestC50(t *testing.T) {
	rec := evid.Start(t, "C50", "complete enumeration of declaring composite {struct, resource, contract} x access modifier {self, contract, account, all, E0, E0|E1, (E0,E1)} x "+
		"member {let field, var field, function} x probe {read, call, assign, second assignment in the initializer (plain / inside a branch)} x scope "+
		"{same composite, sibling composite, contract function, composite nested in the declaring contract, other contract same account, other contract other account, "+
		"transaction, script} x receiver {owned value, self, unauthorized reference, auth(E0), auth(E1), auth(E0,E1), auth(E0|E1), auth(E2)} (ill-formed combinations "+
		"dropped); exactly one probe per program, checked through runtime.ParseAndCheckProgram with the other contracts deployed; the checker must accept exactly "+
		"when an independent scope model allows, and a rejection must carry an access/assignment error on the probe line. Non-trivial: scope is not the declaring "+
		"composite itself and the modifier is not access(all). Distinct by the case tuple.")
	shapes := []int{0}
	if evid.Thorough() {
		shapes = []int{0, 1, 2}
	}
	if f := evid.ReplayFile(); f != "" {
		var cs c50Case
		if err := evid.LoadReplay(f, &cs); err != nil {
			t.Fatalf("bad replay file: %v", err)
		}
		shapes = []int{cs.Shape}
	}
	for _, shape := range shapes {
		c50Shape = shape
		c50RunShape(t, rec)
	}
	if evid.ReplayFile() != "" {
		return
	}
	rec.SetExhaustive(true)
	rec.Extra("exhaustive_subspaces", "the whole case space described in the rule (merged over shards)")
	rec.Extra("declaration_shapes", len(shapes))
	for _, s := range c50Scopes {
		requireClasses(t, rec, "scope:"+s)
	}
	requireClasses(t, rec, "model-allows:true", "model-allows:false", "probe:init-second-branch/let", "receiver:ref", "receiver:self", "receiver:owned",
		"declaring:S", "declaring:R", "declaring:C1")
}

func c50RunShape(t *testing.T, rec *evid.Rec) {
	c := &c50{t: t, rec: rec, c1: c50ContractC1()}
	c.bare = host.New()
	c.deployed = host.New()
	clean := c.c1
	for _, m := range []string{mkInitS, mkInitR, mkInitC, mkSameS, mkSameR, mkNestedS, mkSibling, mkContract, mkContract2} {
		clean = strings.Replace(clean, m, "", 1)
	}
	if res := c.deployed.Deploy(host.Addr(1), "C1", clean, host.Interp); res.Err != nil || res.Panic != nil {
		rec.Inconclusive(t, "the base contract C1 does not deploy: %v %v", res.Err, res.Panic)
	}
	// the unmodified base program (every field assigned once in its initializer) must check
	if err, p := c.bare.Check(clean, common.AddressLocation{Address: host.Addr(1), Name: "C1"}); err != nil || p != nil {
		rec.Violation(t, c50Case{Probe: "assign-in-init", Program: clean}, "the base program (every let/var field assigned exactly once in init) is rejected: %v %v", err, p)
	}
	rec.Case(false, "base", c50Shape)

	if f := evid.ReplayFile(); f != "" {
		var cs c50Case
		if err := evid.LoadReplay(f, &cs); err != nil {
			t.Fatalf("bad replay file: %v", err)
		}
		if !c.run(cs) {
			t.Fatalf("replay case is not part of the enumerated space: %+v", cs)
		}
		return
	}

	// the space is split over shards by case index
	idx := 0
	for _, d := range []string{dStruct, dResource, dContract} {
		for mi, m := range c50Mods {
			if d == dContract && m.Kind == 4 {
				continue
			}
			for _, pm := range [][2]string{{"read", "let"}, {"read", "var"}, {"call", "fun"}, {"assign", "let"}, {"assign", "var"},
				{"init-second", "let"}, {"init-second", "var"}, {"init-second-branch", "let"}, {"init-second-branch", "var"}} {
				for scope := range c50Scopes {
					for _, rv := range c50Receivers() {
						idx++
						if idx%evid.Shards() != evid.Shard() {
							continue
						}
						c.run(c50Case{Declaring: d, Mod: mi, Probe: pm[0], Member: pm[1], Scope: scope, Recv: rv, Shape: c50Shape})
					}
				}
			}
		}
	}
}
