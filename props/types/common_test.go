package types

import (
	"fmt"
	"testing"

	"github.com/onflow/cadence/sema"

	"verif/lib/evid"
	"verif/lib/tgen"
)

// universeSeeds returns the universes a run uses: the six fixed ones plus
// `extra` seed-dependent random ones.
func universeSeeds(extra int) []int64 {
	out := []int64{0, 1, 2, 3, 4, 5}
	r := evid.Rand(4242)
	for i := 0; i < extra; i++ {
		out = append(out, 100+int64(r.Intn(1_000_000)))
	}
	return out
}

// guard runs f and converts a Go panic into an error string.
func guard(f func()) (panicked string) {
	defer func() {
		if r := recover(); r != nil {
			panicked = fmt.Sprintf("%v", r)
		}
	}()
	f()
	return ""
}

func typeStr(t sema.Type) string {
	if t == nil {
		return "<nil>"
	}
	return string(t.ID())
}

func addClasses(rec *evid.Rec, prefix string, t sema.Type) {
	for _, c := range tgen.Classes(t) {
		rec.Class(prefix + c)
	}
}

// requireClasses checks generator health inside the test only for unsharded
// runs; in sharded runs a rare class may be absent from one shard, and the
// driver checks the merged histogram instead (require_classes in props.d).
func requireClasses(t testing.TB, rec *evid.Rec, labels ...string) {
	if evid.Shards() == 1 {
		rec.RequireClasses(t, labels...)
	}
}
