package vir

import (
	"sort"
	"testing"

	"pgregory.net/rapid"

	"verif/lib/evid"
	"verif/lib/host"
	"verif/lib/prog"
	"verif/lib/vir"
	"verif/lib/vir/virhost"
)

// C05 — non-resource values have copy semantics.
//
// vir.GenCopy builds a nested struct/array/dictionary value a (container sizes
// 0..300, long strings), obtains b from a by one transfer form (let, assignment,
// argument, return, field store, constructor argument, container insert, closure
// capture, dereference, optional unwrap, for-in, storage save + copy/load in a
// later transaction), mutates both sides through random access paths — directly
// and through references — and returns both. The expected values come from the
// reference evaluator, whose transfers are plain Go deep copies that cannot
// alias. Any aliasing (or lost update) in cadence shows up as a difference.
func TestC05(t *testing.T) {
	rec := evid.Start(t, "C05", "rapid-generated programs: nested struct/array/dictionary value a (sizes 0..300), b obtained by a transfer "+
		"form (let, assignment, argument, return, field store, constructor argument, array/dictionary insert, closure capture, "+
		"dereference, optional unwrap, for-in, storage save+copy/load across transactions), then random mutations through random access "+
		"paths on either side, directly and through references; both sides returned and compared with the reference evaluator (Go deep "+
		"copies) on interpreter and VM. non-trivial: nesting depth >= 2, >= 1 mutation on each side and a container of >= 45 elements "+
		"(beyond atree's inlining threshold); distinct by program text")

	rapid.Check(t, func(rt *rapid.T) {
		cc := vir.GenCopy(rt)
		info := cc.Info
		nontrivial := info.Depth >= 2 && info.MutA >= 1 && info.MutB >= 1 && info.MaxSize >= 45
		var hist prog.History
		var wants []vir.Outcome
		if cc.Script != nil {
			hist = virhost.ScriptHistory(cc.Script, "vir.GenCopy")
			wants = []vir.Outcome{vir.Eval(cc.Script)}
		} else {
			hist = virhost.ToHistory(cc.Hist, "vir.GenCopy")
			wants = append([]vir.Outcome{{}}, vir.EvalHistory(cc.Hist)...) // step 0 = deployment
		}
		key := hist.Key()
		rec.Case(nontrivial, key)
		rec.Class("form:" + info.Form)
		feats := make([]string, 0, len(info.Features))
		for f := range info.Features {
			feats = append(feats, f)
		}
		sort.Strings(feats)
		for _, f := range feats {
			rec.Class("mutation:" + f)
		}
		if info.ViaRef > 0 {
			rec.Class("mutated-through-reference")
		}
		switch {
		case info.MaxSize >= 150:
			rec.Class("size:>=150")
		case info.MaxSize >= 45:
			rec.Class("size:45-149")
		case info.MaxSize >= 9:
			rec.Class("size:9-44")
		default:
			rec.Class("size:<9")
		}
		rec.Class("depth:" + string(rune('0'+min(info.Depth, 6))))
		if rec.WantSample(info.Form) {
			rec.Sample(info.Form, map[string]any{"history": hist.String(), "root_type": info.RootType})
		}
		for _, w := range wants {
			if w.Unknown != "" || w.Fail != "" {
				rt.Fatalf("harness: the model does not complete the generated program (%s)\n%s", w.String(), hist.String())
			}
		}
		for _, e := range host.Engines {
			// cadence's per-operation atree validation is quadratic in the container size: keep it for small values only
			results, _ := prog.Run(nil, hist, host.Options{Engine: e, NoAtreeValidation: info.MaxSize > 20})
			for i, r := range results {
				got := virhost.Observe(r)
				if got.Fail != "" {
					rt.Fatalf("[%s] step %d failed: %s (%v)\n%s", e, i, got.Fail, got.Err, hist.String())
				}
				if wants[i].Value != nil && hist.Steps[i].Kind == prog.Script {
					if w := vir.Canon(wants[i].Value); got.Value != w {
						rt.Fatalf("[%s] step %d: values differ from the model (copy semantics violated?)\ngot  %s\nwant %s\n%s",
							e, i, clip(got.Value), clip(w), hist.String())
					}
				}
			}
		}
	})
}

func clip(s string) string {
	if len(s) > 4000 {
		return s[:4000] + "…"
	}
	return s
}
