package vir

import (
	"fmt"
	"sort"
	"strings"
	"testing"

	"pgregory.net/rapid"

	"verif/lib/evid"
	"verif/lib/host"
	"verif/lib/vir"
	"verif/lib/vir/virhost"
)

// C10 — pre/post conditions are always enforced.
//
// vir.GenCond builds an interface DAG with pre/post conditions (over parameters,
// self.x, before(...), result; emit conditions), default implementations and a
// composite that overrides or inherits. For every function of the composite the
// test searches a grid of arguments with the reference evaluator in diagnostic
// mode for argument tuples that make exactly the k-th condition false (one-hot),
// none false, or several false, and then executes those calls on both engines.
// Expected: success (with the model's result) iff all own + inherited conditions
// hold, else a ConditionError of the model's kind (pre/post). The order in which
// conditions are evaluated is not asserted.
func TestC10(t *testing.T) {
	rec := evid.Start(t, "C10", "rapid-generated interface DAGs (depth<=3, diamonds) with pre/post conditions over parameters, fields, "+
		"before(), result and emit, default implementations at varying levels, struct/resource composites overriding or inheriting, nested "+
		"calls; arguments chosen by model search so that exactly the k-th condition is false (one-hot), none, or several; each call on "+
		"interpreter and VM vs. reference evaluator (success+result or ConditionError kind). non-trivial: the called function has >= 2 "+
		"inherited boolean conditions from >= 2 different interfaces and exactly one condition is false; distinct by (DAG shape, "+
		"implementation level, falsified condition)")
	rejected, programs := 0, 0

	rapid.Check(t, func(rt *rapid.T) {
		cp := vir.GenCond(rt)
		programs++
		for _, d := range []string{"shared-first", "shared-middle", "shared-last", "shared-then-new"} {
			if cp.Diamonds[d] {
				rec.Class("diamond:" + d)
			}
		}
		if len(cp.Diamonds) == 0 {
			rec.Class("diamond:none")
		}
		calls := chooseCalls(rt, cp)
		for _, cc := range calls {
			p := cp.WithCall(cc.call)
			src := vir.PrintScript(p)
			want := vir.Eval(p)
			if want.Unknown != "" {
				rt.Fatalf("harness: reference evaluator does not model the generated program: %s\n%s", want.Unknown, src)
			}
			if want.Fail != "" && want.Fail != vir.FailPre && want.Fail != vir.FailPost {
				rt.Fatalf("harness: model failed with %s\n%s", want.Fail, src)
			}
			var obs [2]virhost.Observed
			isRejected := false
			for i, e := range host.Engines {
				obs[i] = virhost.RunScript(src, e)
				if strings.Contains(obs[i].Fail, "sema.") || strings.Contains(obs[i].Fail, "CheckerError") || strings.Contains(obs[i].Fail, "ParsingCheckingError") {
					isRejected = true
				}
			}
			if isRejected {
				// generator health, not a property violation
				rejected++
				rec.Class("checker-rejected")
				if rec.WantSample("checker-rejected") {
					rec.Sample("checker-rejected", map[string]any{"source": src, "error": fmt.Sprint(obs[0].Err)})
				}
				return
			}
			inherited := inheritedIfaces(cp, cc.call.Fn)
			nontrivial := cc.oneHot != "" && inherited >= 2
			rec.Case(nontrivial, cp.Shape, cc.call.Fn, cc.oneHot, cc.call.Via)
			rec.Class("case:" + cc.class)
			rec.Class("expected:" + map[string]string{"": "ok", vir.FailPre: "pre", vir.FailPost: "post"}[want.Fail])
			switch {
			case cc.call.Via == "":
				rec.Class("via:concrete")
			case strings.HasPrefix(cc.call.Via, "&"):
				rec.Class("via:interface-reference")
			default:
				rec.Class("via:interface-value")
			}
			if cp.Resource {
				rec.Class("kind:resource")
			} else {
				rec.Class("kind:struct")
			}
			if strings.Contains(cp.Shape, cc.call.Fn+"=inherited") {
				rec.Class("impl:default-inherited")
			} else if strings.Contains(cp.Shape, cc.call.Fn+"=override") {
				rec.Class("impl:overrides-default")
			} else {
				rec.Class("impl:own")
			}
			rec.Class(fmt.Sprintf("inherited-condition-interfaces:%d", min(inherited, 4)))
			if cp.ImplHasNestedFunction(cc.call.Fn) {
				rec.Class("body:nested-function")
				// every body ends in (or takes early) an explicit return
				if want.Fail == vir.FailPost {
					rec.Class("body:nested-function+explicit-return+failing-post")
				}
			}
			if rec.WantSample(cc.class) {
				rec.Sample(cc.class, map[string]any{"source": src, "expected": want.String(), "falsified": cc.oneHot})
			}
			for i, e := range host.Engines {
				got := obs[i]
				if got.Fail != want.Fail {
					rt.Fatalf("[%s] outcome differs from the reference evaluator: got %q (%v), want %q (falsified: %s)\n%s",
						e, got.Fail, got.Err, want.Fail, cc.oneHot, src)
				}
				if want.Fail == "" && got.Value != vir.Canon(want.Value) {
					rt.Fatalf("[%s] result differs from the reference evaluator: got %s, want %s\n%s", e, got.Value, vir.Canon(want.Value), src)
				}
			}
		}
	})
	rec.Extra("programs", programs)
	rec.Extra("checker_rejected_programs", rejected)
	if programs >= 20 && rejected*20 > programs {
		rec.Inconclusive(t, "generator health: %d of %d programs rejected by the checker", rejected, programs)
	}
}

// inheritedIfaces counts the interfaces that contribute boolean conditions to fn of T.
func inheritedIfaces(cp *vir.CondProgram, fn string) int {
	owners := map[string]bool{}
	for _, id := range cp.CondIDs(fn) {
		o := id[:strings.Index(id, ".")]
		if o != "T" {
			owners[o] = true
		}
	}
	return len(owners)
}

type chosenCall struct {
	call   vir.CondCall
	class  string // one-hot-pre | one-hot-post | all-true | multi-false | random
	oneHot string // falsified condition
}

// chooseCalls searches the argument grid with the model in diagnostic mode.
func chooseCalls(rt *rapid.T, cp *vir.CondProgram) []chosenCall {
	var out []chosenCall
	for _, fn := range cp.Funcs {
		oneHot := map[string][]vir.CondCall{}
		var allTrue, multi []vir.CondCall
		for _, x := range []int64{0, 3, 7} {
			for a := int64(-3); a <= 12; a++ {
				for b := int64(-3); b <= 12; b++ {
					c := vir.CondCall{Fn: fn, A: a, B: b, X: x}
					falses, o := vir.EvalDiag(cp.WithCall(c))
					if o.Unknown != "" || o.Fail != "" {
						continue
					}
					switch len(falses) {
					case 0:
						allTrue = append(allTrue, c)
					case 1:
						oneHot[falses[0]] = append(oneHot[falses[0]], c)
					default:
						multi = append(multi, c)
					}
				}
			}
		}
		vias := []string{""}
		for _, i := range cp.Ifaces {
			if cp.IfaceDeclares(i, fn) {
				vias = append(vias, i, "&"+i)
			}
		}
		pick := func(cs []vir.CondCall, label string) vir.CondCall {
			c := cs[rapid.IntRange(0, len(cs)-1).Draw(rt, label)]
			c.Via = vias[rapid.IntRange(0, len(vias)-1).Draw(rt, "via")]
			return c
		}
		ids := make([]string, 0, len(oneHot))
		for id := range oneHot {
			ids = append(ids, id)
		}
		sort.Strings(ids)
		for _, id := range ids {
			class := "one-hot-pre"
			if strings.Contains(id, "/post/") {
				class = "one-hot-post"
			}
			out = append(out, chosenCall{call: pick(oneHot[id], "one-hot"), class: class, oneHot: id})
		}
		if len(allTrue) > 0 {
			out = append(out, chosenCall{call: pick(allTrue, "all-true"), class: "all-true"})
			out = append(out, chosenCall{call: pick(allTrue, "all-true"), class: "all-true"})
		}
		if len(multi) > 0 {
			out = append(out, chosenCall{call: pick(multi, "multi"), class: "multi-false"})
		}
		rnd := vir.CondCall{Fn: fn,
			A: int64(rapid.IntRange(-5, 15).Draw(rt, "a")), B: int64(rapid.IntRange(-5, 15).Draw(rt, "b")), X: int64(rapid.IntRange(-2, 9).Draw(rt, "x")),
			Via: vias[rapid.IntRange(0, len(vias)-1).Draw(rt, "via")]}
		out = append(out, chosenCall{call: rnd, class: "random"})
	}
	return out
}
