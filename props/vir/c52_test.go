package vir

import (
	"reflect"
	"sort"
	"strings"
	"testing"

	"pgregory.net/rapid"

	"verif/lib/evid"
	"verif/lib/host"
	"verif/lib/vir"
	"verif/lib/vir/virhost"
)

// C52 — evaluation order and short-circuiting follow the language definition.
//
// Generated programs (vir.GenOrder) consist of expressions whose every leaf is a
// call t_<T>(k, v) logging the unique number k, nested under every operator and
// statement form of the statement. The reference evaluator (lib/vir/eval.go,
// written from the language definition, independent of cadence) yields the
// expected log sequence, outcome kind and result; the interpreter and the VM must
// both reproduce them exactly — for runs that abort midway this is equality of the
// log prefix up to the failing operation.
func TestC52(t *testing.T) {
	rec := evid.Start(t, "C52", "rapid-generated programs whose expression leaves are logging calls t(k,v), nested under all "+
		"binary operators, &&, ||, ??, ?:, optional chaining, force unwrap, casts, multi-argument calls, method calls on computed "+
		"receivers, array/dictionary literals, index expressions, member/index assignment, swap, if/while conditions, return, "+
		"string templates; each run on interpreter and VM and compared with the reference evaluator (log sequence, failure kind, result). "+
		"non-trivial: >= 4 logged leaves and >= 1 short-circuit construct whose skipped side contains a call; distinct by program text")

	// FV1: `x.f <-> x.f` (both swap targets are the same field of the same object)
	// fails with UseBeforeInitializationError on both engines.
	if rec.Known("FV1") {
		src := "access(all) struct S { access(all) var f: Int; init() { self.f = 1 }; access(all) fun sw(): Int { self.f <-> self.f; return self.f } }\n" +
			"access(all) fun main(): Int { return S().sw() }"
		still := false
		for _, e := range host.Engines {
			still = still || virhost.RunScript(src, e).Fail != ""
		}
		rec.ReportKnown("FV1", still)
	}

	rapid.Check(t, func(rt *rapid.T) {
		p, info := vir.GenOrder(rt)
		src := vir.PrintScript(p)
		want := vir.Eval(p)
		if want.Unknown != "" {
			rt.Fatalf("harness: reference evaluator does not model the generated program: %s\n%s", want.Unknown, src)
		}
		if want.Notes["self-member-swap"] > 0 && rec.Known("FV1") {
			rec.Excluded("FV1")
			return
		}
		leafLogs := 0
		for _, l := range want.Logs {
			if len(l) > 0 && l[0] != '"' {
				leafLogs++
			}
		}
		nontrivial := leafLogs >= 4 && want.Skips >= 1
		rec.Case(nontrivial, src)
		feats := make([]string, 0, len(info.Features))
		for f := range info.Features {
			feats = append(feats, f)
		}
		sort.Strings(feats)
		for _, f := range feats {
			rec.Class("form:" + f)
		}
		outcome := "outcome:ok"
		if want.Fail != "" {
			outcome = "outcome:" + want.Fail
		}
		rec.Class(outcome)
		if want.Skips > 0 {
			rec.Class("short-circuit-skipped-call")
		}
		for _, n := range []string{"coalesce-some-nil", "force-some-nil", "some-nil-collapsed"} {
			if want.Notes[n] > 0 {
				rec.Class("nested-optional:" + n)
			}
		}
		if rec.WantSample(outcome) {
			rec.Sample(outcome, map[string]any{"source": src, "expected_logs": want.Logs, "expected": want.String()})
		}
		for _, e := range host.Engines {
			got := virhost.RunScript(src, e)
			if strings.Contains(got.Fail, "ExpressionDepthLimitReachedError") {
				// the parser's nesting limit (16) rejected the text: generator health, not a verdict
				rec.Class("generator:parser-depth-limit")
				return
			}
			if got.Fail != want.Fail {
				rt.Fatalf("[%s] outcome differs from the reference evaluator: got %q (%v), want %q\nlogs got  %v\nlogs want %v\n%s",
					e, got.Fail, got.Err, want.Fail, got.Logs, want.Logs, src)
			}
			if !sameLogs(got.Logs, want.Logs) {
				rt.Fatalf("[%s] evaluation order differs from the reference evaluator:\nlogs got  %v\nlogs want %v\n%s",
					e, got.Logs, want.Logs, src)
			}
			if want.Fail == "" && got.Value != vir.Canon(want.Value) {
				rt.Fatalf("[%s] result differs from the reference evaluator:\ngot  %s\nwant %s\n%s",
					e, got.Value, vir.Canon(want.Value), src)
			}
		}
	})
}

func sameLogs(a, b []string) bool {
	if len(a) == 0 && len(b) == 0 {
		return true
	}
	return reflect.DeepEqual(a, b)
}
