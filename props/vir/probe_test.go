package vir

import (
	"fmt"
	"os"
	"strings"
	"testing"

	"verif/lib/host"
)

// TestProbe runs the Cadence sources named by VIR_PROBE (a file; programs separated
// by lines starting with "=====") on both engines and prints what happened.
// Development aid only; skipped unless VIR_PROBE is set.
func TestProbe(t *testing.T) {
	p := os.Getenv("VIR_PROBE")
	if p == "" {
		t.Skip("VIR_PROBE not set")
	}
	b, err := os.ReadFile(p)
	if err != nil {
		t.Fatal(err)
	}
	for i, src := range strings.Split(string(b), "\n=====") {
		if nl := strings.Index(src, "\n"); i > 0 && nl >= 0 {
			src = src[nl:]
		}
		if strings.TrimSpace(src) == "" {
			continue
		}
		fmt.Printf("##### program %d\n", i)
		for _, e := range host.Engines {
			h := host.New()
			r := h.Script(src, nil, host.Options{Engine: e})
			ci := host.Classify(r)
			fmt.Printf("[%s] class=%s root=%s value=%s logs=%v\n", e, ci.Class, ci.Root, host.ExportJSON(r.Value), r.Logs)
			if r.Err != nil {
				msg := r.Err.Error()
				if len(msg) > 1500 {
					msg = msg[:1500]
				}
				fmt.Println("   err:", msg)
			}
			if r.Panic != nil {
				fmt.Println("   panic:", r.Panic)
			}
		}
	}
}
