#!/usr/bin/env python3
"""addfinding.py <PROPERTY> <ID> <what fails> [<repro>]  — append a known finding to known_findings.json (locked)."""
import json, sys, fcntl, os
ROOT = os.path.dirname(os.path.dirname(os.path.abspath(__file__)))
path = os.path.join(ROOT, "known_findings.json")
prop, fid, what = sys.argv[1:4]
repro = sys.argv[4] if len(sys.argv) > 4 else ""
with open(path, "r+") as f:
    fcntl.flock(f, fcntl.LOCK_EX)
    d = json.load(f)
    for e in d["findings"]:
        if e["property"] == prop and e["id"] == fid:
            e.update({"what": what, "repro": repro})
            break
    else:
        d["findings"].append({"property": prop, "id": fid, "status": "known", "what": what, "repro": repro})
    f.seek(0); f.truncate()
    json.dump(d, f, indent=1)
print("ok")
