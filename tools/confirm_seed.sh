#!/bin/bash
# confirm_seed.sh <seed-dir> <name> : independently confirm a seeded change (worktree with patch applied + demo in place)
# and store it under /verif/seeded/<name>/. Prints a summary; exit 0 when confirmed.
set -u
d=$1; name=$2
export GOFLAGS=-mod=mod GOPROXY=off GOTOOLCHAIN=local PATH=/root/go/pkg/mod/golang.org/toolchain@v0.0.1-go1.25.0.linux-amd64/bin:$PATH
cd $d || exit 2
out=/verif/seeded/$name; mkdir -p $out
log=$out/confirm.log; : > $log
demo_src=_seeded/demo_test.go
place=$(head -1 $demo_src | sed -n 's#^// place in: *##p' | tr -d ' \r')
[ -z "$place" ] && { echo "no place-in line" | tee -a $log; exit 2; }
demo_dst=$place/zz_seeded_demo_test.go
# normalise: remove any demo copies the seeder left, then put ours
git status --short | awk '$1=="??" && $2 ~ /_test\.go$/ {print $2}' | xargs -r rm -f
git checkout -q -- . ; git checkout -q --detach $(git -C /repo rev-parse HEAD) ; git apply _seeded/patch.diff || { echo "patch does not apply" | tee -a $log; exit 1; }
cp $demo_src $demo_dst
echo "== build with patch" >> $log; go build ./... >> $log 2>&1 || { echo "BUILD FAILS" | tee -a $log; exit 1; }
echo "== demo with patch (must fail)" >> $log
go test -vet=off -count=1 ./$place/ -run "$(grep -o 'func Test[A-Za-z0-9_]*' $demo_src | sed 's/func //' | paste -sd'|')" >> $log 2>&1; rc_with=$?
git apply -R _seeded/patch.diff
echo "== demo without patch (must pass)" >> $log
go test -vet=off -count=1 ./$place/ -run "$(grep -o 'func Test[A-Za-z0-9_]*' $demo_src | sed 's/func //' | paste -sd'|')" >> $log 2>&1; rc_without=$?
git apply _seeded/patch.diff
rm -f $demo_dst
echo "== existing tests with patch" >> $log
pkgs=$(git diff --name-only | xargs -n1 dirname | sort -u | sed 's#^#./#; s#$#/...#' | paste -sd' ')
extra="./interpreter/... ./sema/... ./runtime/... ./bbq/... ./stdlib/..."
go test -vet=off -count=1 $pkgs $extra 2>&1 | grep -v "no test files" >> $log; rc_suite=${PIPESTATUS[0]}
git checkout -q -- go.mod go.sum 2>/dev/null
cp _seeded/patch.diff $out/patch.diff; cp $demo_src $out/demo_test.go; cp _seeded/meta.json $out/meta.seeder.json 2>/dev/null
echo "demo_with_patch_rc=$rc_with demo_without_patch_rc=$rc_without existing_tests_rc=$rc_suite" | tee -a $log
[ $rc_with -ne 0 ] && [ $rc_without -eq 0 ] && [ $rc_suite -eq 0 ]
