#!/usr/bin/env python3
"""finish_seed.py <name> <property> <caught|missed> "<what our check reported / why missed>" — writes seeded/<name>/meta.json"""
import json, os, sys
name, prop, verdict, note = sys.argv[1:5]
d = os.path.join("/verif/seeded", name)
seeder = {}
p = os.path.join(d, "meta.seeder.json")
if os.path.exists(p):
    try: seeder = json.load(open(p))
    except Exception: seeder = {"raw": open(p).read()}
log = open(os.path.join(d, "confirm.log")).read().strip().splitlines()
meta = {
    "property": prop,
    "summary": seeder.get("summary", ""),
    "needs": seeder.get("needs", ""),
    "files": seeder.get("files", []),
    "seeder_ran": seeder.get("ran", []),
    "confirmed_by_coordinator": {
        "how": "tools/confirm_seed.sh in a scratch worktree: go build ./... with patch; demo test fails with patch and passes after git apply -R; existing tests of the touched packages plus interpreter/sema/runtime/bbq/stdlib (round 1 additionally encoding/parser/ast/common/values) pass with the patch",
        "result": log[-1] if log else "",
    },
    "check_verdict": verdict,
    "check_note": note,
    "ran_check": "VERIF_REPO=<scratch worktree with patch> ./check %s (quick tier)" % prop,
}
json.dump(meta, open(os.path.join(d, "meta.json"), "w"), indent=1)
os.remove(p) if os.path.exists(p) else None
print("wrote", os.path.join(d, "meta.json"))
