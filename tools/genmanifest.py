#!/usr/bin/env python3
"""Regenerates /verif/MANIFEST.json from props.d/*.json (one fragment per group) and na.json."""
import json, glob, os, sys
ROOT = os.path.dirname(os.path.dirname(os.path.abspath(__file__)))
cfg = {}
for f in sorted(glob.glob(os.path.join(ROOT, "props.d", "*.json"))):
    cfg.update(json.load(open(f)))
props = [json.loads(l) for l in open(os.path.join(ROOT, "properties.jsonl")) if l.strip()]
na_reasons = json.load(open(os.path.join(ROOT, "na.json"))) if os.path.exists(os.path.join(ROOT, "na.json")) else {}
checks, na = [], []
hooks = json.load(open(os.path.join(ROOT, "hooks.json"))) if os.path.exists(os.path.join(ROOT, "hooks.json")) else {}
for p in props:
    pid = p["id"]
    c = cfg.get(pid)
    if not c or c.get("disabled"):
        na.append({"property_id": pid, "reason": na_reasons.get(pid, "no check built yet in this session; see DESIGN.md §4 for the planned check")})
        continue
    m = c.get("manifest", {})
    level = c.get("level", "exploration")
    entry = {
        "property_id": pid,
        "quick_cmd": "./check %s --tier quick" % pid,
        "thorough_cmd": "./check %s --tier thorough" % pid,
        "evidence_file": "/verif/evidence/%s.json" % pid,
        "replay_cmd_template": "./check %s --replay {path}" % pid,
        "engine": c["pkg"],
        "level_claimed": {
            "category": level,
            "text": m.get("level_text", "generated-input search against an explicit oracle; holds on every case explored, never a proof of absence"),
            "design_ref": m.get("design_ref", "DESIGN.md §4 " + pid),
        },
        "level_note": m.get("level_note", "trusts the harness oracle and the Go toolchain; sampling only"),
        "technique": m.get("technique", "property-based testing (generated inputs vs. reference model)"),
    }
    checks.append(entry)
engines = {}
for pid, c in cfg.items():
    if c.get("disabled"):
        continue
    engines.setdefault(c["pkg"], []).append(pid)
man = {
    "version": 1,
    "setup_cmd": "./check --setup",
    "hooks": {
        "guard": "verif",
        "enable": "go test -tags verif (set per check in props.d/*.json; the driver passes it)",
        "baseline_off_cmd": "cd /repo && go test -mod=mod -vet=off -count=1 -timeout 25m ./...",
        "source_commits": hooks.get("source_commits", []),
        "add_only": True,
    },
    "engines": [{"name": k, "path": "/verif/" + k.lstrip("./"), "serves_properties": sorted(v),
                 "kind_free_text": "Go test package: generators + oracles, run by /verif/check"} for k, v in sorted(engines.items())],
    "checks": checks,
    "notes": "All checks are property-based tests / enumerations / fuzz targets driven by /verif/check; see DESIGN.md. Known and fixed findings: known_findings.json.",
    "not_applicable": na,
}
json.dump(man, open(os.path.join(ROOT, "MANIFEST.json"), "w"), indent=1)
print("checks:", len(checks), "not claimed:", len(na))
