#!/bin/sh
# mkseed.sh <ID> [suffix] : create scratch worktree /tmp/seed-<ID><suffix> with the property text in _PROPERTY.txt
id=$1; suf=$2; d=/tmp/seed-$id$suf
[ -d $d ] || git -C /repo worktree add -q $d HEAD
jq -r "select(.id==\"$id\") | \"Property \(.id): \(.title)\n\nStatement: \(.statement)\n\nQuantified over: \(.quantifier.text)\n\nCode anchors (files that implement it): \(.anchors.files|join(\", \"))\"" /verif/properties.jsonl > $d/_PROPERTY.txt
cp /verif/tools/seeder_prompt.txt /tmp/seeder_prompt.txt
echo $d
