#!/bin/sh
# mkseed2.sh <ID> : second-round seed worktree /tmp/seed-<ID>b, telling the seeder what the first seed did
id=$1; d=/tmp/seed-${id}b
[ -d $d ] || git -C /repo worktree add -q $d HEAD
jq -r "select(.id==\"$id\") | \"Property \(.id): \(.title)\n\nStatement: \(.statement)\n\nQuantified over: \(.quantifier.text)\n\nCode anchors (files that implement it): \(.anchors.files|join(\", \"))\"" /verif/properties.jsonl > $d/_PROPERTY.txt
prev=$(jq -r '.summary + " (needs: " + .needs + ")"' /verif/seeded/$id-a/meta.json 2>/dev/null)
printf '\nALREADY TAKEN — another engineer already produced this change for the same property; you must pick a DIFFERENT mechanism in a DIFFERENT function/code area, and a different clause of the statement if it has several:\n  %s\n' "$prev" >> $d/_PROPERTY.txt
cp /verif/tools/seeder_prompt.txt /tmp/seeder_prompt.txt
echo $d
