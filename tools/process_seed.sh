#!/bin/bash
# process_seed.sh <prop> [suffix]: run the quick check against /tmp/seed-<prop>, confirm the seed, write seeded/<prop>-<suffix>/meta.json
p=$1; suf=${2:-a}; d=/tmp/seed-$p; [ "$suf" != a ] && d=/tmp/seed-$p$suf; name=$p-$suf
mkdir -p /tmp/seedres
# rebase the seed onto /repo HEAD first so that the check runs against HEAD + patch
( cd $d && git status --short | awk '$1=="??" && $2 ~ /_test\.go$/ {print $2}' | xargs -r rm -f; git checkout -q -- . ; git checkout -q --detach $(git -C /repo rev-parse HEAD) ; git apply _seeded/patch.diff ) || echo "REBASE FAILED $p" >> /tmp/seedres/summary.txt
cd /verif
out=$(VERIF_REPO=$d ./check $p 2>&1 | grep -v "^KNOWN-FINDING\|^NOTE")
rc=$?
line=$(echo "$out" | grep -m1 "VERIF-VIOLATION\|violation:\|\[rapid\] failed" | cut -c1-400)
last=$(echo "$out" | tail -1)
if echo "$last" | grep -q "^VIOLATION"; then verdict=caught; note="quick: $line"; 
elif echo "$last" | grep -q "^OK"; then verdict=missed; note="quick: $last";
else verdict="inconclusive"; note="quick: $last"; fi
/verif/tools/confirm_seed.sh $d $name > /tmp/seedres/$name.confirm 2>&1; crc=$?
python3 /verif/tools/finish_seed.py $name $p "$verdict" "$note" > /dev/null
echo "$name verdict=$verdict confirm_rc=$crc :: $(tail -1 /tmp/seedres/$name.confirm) :: $note" | tee -a /tmp/seedres/summary.txt
if [ $crc -eq 0 ]; then git -C /repo worktree remove --force $d; fi
