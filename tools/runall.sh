#!/bin/bash
# runall.sh [seed] [ids...] : run every quick check sequentially on /repo, summarise
seed=${1:-0}; shift
ids=${@:-$(cd /verif && ./check --list | awk '{print $1}')}
cd /verif
for p in $ids; do
  s=$(date +%s)
  out=$(VERIF_SEED=$seed ./check $p 2>&1); rc=$?
  e=$(( $(date +%s) - s ))
  echo "$p rc=$rc ${e}s :: $(echo "$out" | grep -v '^KNOWN-FINDING\|^NOTE' | tail -1 | cut -c1-220)"
done
