#!/bin/bash
# runseed.sh <seed-name> <property> [tier] : apply seeded/<name>/patch.diff to a scratch worktree of /repo HEAD and run the check against it
name=$1; prop=$2; tier=${3:-quick}
d=/tmp/rs-$name-$$
git -C /repo worktree add -q $d HEAD || exit 2
( cd $d && git apply /verif/seeded/$name/patch.diff ) || { echo "patch does not apply"; git -C /repo worktree remove --force $d; exit 2; }
cd /verif && VERIF_REPO=$d ./check $prop --tier $tier 2>&1 | grep -v "^KNOWN-FINDING\|^NOTE" | tail -${TAIL:-4}
rc=${PIPESTATUS[0]}
git -C /repo worktree remove --force $d
rm -f /verif/.build/alt-$(echo $d | sed "s/[^A-Za-z0-9_]/_/g").mod /verif/.build/alt-$(echo $d | sed "s/[^A-Za-z0-9_]/_/g").sum
exit $rc
