#!/bin/bash
# seedsweep.sh [P]: re-run every seeded change against /repo HEAD with the current checks (P parallel, default 4); results in /tmp/sweep/<name>.txt
P=${1:-4}
mkdir -p /tmp/sweep
ls -d /verif/seeded/*/ | xargs -n1 basename | xargs -P $P -I{} bash -c 'n={}; p=${n%-*}; TAIL=2 /verif/tools/runseed.sh $n $p > /tmp/sweep/$n.txt 2>&1; echo "$n rc=$? $(tail -1 /tmp/sweep/$n.txt | cut -c1-160)"'
